package filetracker

// BOUNDED stand-in for C22 (labelled bounded, never counted as proved): every history of up to
// VERIF_BOUND_WRITES writes with offset in [0,VERIF_BOUND_OFF) and length in [0,VERIF_BOUND_LEN] is
// replayed on the real TFile.trackWrite / getRangeToRead and compared offset by offset with a bitmap.
// VERIF_HISTORY="off:len,off:len,..." replays one history. Output lines start with BOUNDED-.

import (
	"fmt"
	"math/rand"
	"os"
	"strconv"
	"strings"
	"testing"
)

type bdW struct{ off, n int64 }

func bdEnv(name string, def int) int {
	if v, err := strconv.Atoi(os.Getenv(name)); err == nil {
		return v
	}
	return def
}

// bdCheck returns "" when the tracker agrees with the bitmap, also checking the marker set is canonical.
func bdCheck(ws []bdW, span int64) string { return bdCheckFrom(ws, 0, span) }

// bdCheckFrom compares on the window [lo, span) (all writes must lie inside it)
func bdCheckFrom(ws []bdW, lo, span int64) string {
	tf := newTFile(nil, nil, "f")
	bitsW := make([]bool, span-lo+1)
	for _, w := range ws {
		tf.trackWrite(w.off, w.n)
		for i := w.off; i < w.off+w.n; i++ {
			bitsW[i-lo] = true
		}
	}
	bits := func(i int64) bool { return bitsW[i-lo] }
	for off := lo; off < span; off++ {
		if _, st1 := tf.getRangeToRead(off, 1); st1 != bits(off) {
			return fmt.Sprintf("offset %d (length 1) reported modified=%v, bitmap says %v", off, st1, bits(off))
		}
		c, st := tf.getRangeToRead(off, span-off)
		if st != bits(off) {
			return fmt.Sprintf("offset %d reported modified=%v, bitmap says %v", off, st, bits(off))
		}
		if c <= 0 || c > span-off {
			return fmt.Sprintf("offset %d: contiguous length %d outside (0,%d]", off, c, span-off)
		}
		for i := off; i < off+c; i++ {
			if bits(i) != bits(off) {
				return fmt.Sprintf("range [%d,%d) returned from offset %d crosses a modified/unmodified boundary at %d", off, off+c, off, i)
			}
		}
		// maximality is not part of the property; short reads are allowed
	}
	return ""
}

func bdFmt(ws []bdW) string {
	var p []string
	for _, w := range ws {
		p = append(p, fmt.Sprintf("%d:%d", w.off, w.n))
	}
	return strings.Join(p, ",")
}

func TestBoundedTracker(t *testing.T) {
	if h := os.Getenv("VERIF_HISTORY"); h != "" {
		var ws []bdW
		span := int64(1)
		for _, f := range strings.Split(h, ",") {
			var w bdW
			fmt.Sscanf(f, "%d:%d", &w.off, &w.n)
			ws = append(ws, w)
			if w.off+w.n+1 > span {
				span = w.off + w.n + 1
			}
		}
		if msg := bdCheck(ws, span); msg != "" {
			fmt.Printf("BOUNDED-FAIL history=%s %s\n", bdFmt(ws), msg)
		} else {
			fmt.Printf("BOUNDED-PASS history=%s\n", bdFmt(ws))
		}
		return
	}
	nw, no, nl := bdEnv("VERIF_BOUND_WRITES", 3), bdEnv("VERIF_BOUND_OFF", 8), bdEnv("VERIF_BOUND_LEN", 5)
	nrand, deep := bdEnv("VERIF_BOUND_RANDOM", 20000), bdEnv("VERIF_BOUND_DEEP", 8)
	seed := int64(bdEnv("VERIF_SEED", 1))
	span := int64(no + nl + 1)
	var alphabet []bdW
	for o := 0; o < no; o++ {
		for l := 0; l <= nl; l++ {
			alphabet = append(alphabet, bdW{int64(o), int64(l)})
		}
	}
	histories, nontrivial, fails := 0, 0, 0
	seen := map[string]bool{} // distinct resulting bitmaps with at least two separate modified ranges or a merge
	var samples []string
	var rec func(prefix []bdW)
	try := func(ws []bdW) {
		histories++
		if msg := bdCheck(ws, span); msg != "" {
			fails++
			if fails <= 5 {
				fmt.Printf("BOUNDED-FAIL history=%s %s\n", bdFmt(ws), msg)
			}
		}
		// non-trivial: at least two writes with positive length that overlap or touch
		nt := false
		for i := range ws {
			for j := 0; j < i; j++ {
				a, b := ws[i], ws[j]
				if a.n > 0 && b.n > 0 && a.off <= b.off+b.n && b.off <= a.off+a.n {
					nt = true
				}
			}
		}
		if nt {
			k := bdFmt(ws)
			if !seen[k] {
				seen[k] = true
				nontrivial++
				if len(samples) < 4 && nontrivial%997 == 1 {
					samples = append(samples, k)
				}
			}
		}
	}
	rec = func(prefix []bdW) {
		if len(prefix) > 0 {
			try(prefix)
		}
		if len(prefix) == nw {
			return
		}
		for _, w := range alphabet {
			rec(append(append([]bdW(nil), prefix...), w))
		}
	}
	rec(nil)
	exhaustive := histories
	// random deeper histories over a wider range
	rng := rand.New(rand.NewSource(seed))
	for i := 0; i < nrand; i++ {
		n := 1 + rng.Intn(deep)
		ws := make([]bdW, n)
		// offsets around 0 and around the points where the big-endian key gains a byte
		base := []int64{0, 0, 244, 65524}[rng.Intn(4)]
		for j := range ws {
			ws[j] = bdW{base + int64(rng.Intn(24)), int64(rng.Intn(9))}
		}
		lo, hi := base, base+34
		if lo > 0 {
			lo -= 2
		}
		if i%10 == 0 {
			// long writes spanning several 256-byte blocks of the key space
			for j := range ws {
				ws[j] = bdW{int64(rng.Intn(700)), int64(rng.Intn(600))}
			}
			lo, hi = 0, 1310
		}
		histories++
		if msg := bdCheckFrom(ws, lo, hi); msg != "" {
			fails++
			if fails <= 5 {
				fmt.Printf("BOUNDED-FAIL history=%s %s\n", bdFmt(ws), msg)
			}
		}
		if i < 2 {
			samples = append(samples, bdFmt(ws))
		}
	}
	for _, s := range samples {
		fmt.Printf("BOUNDED-SAMPLE history=%s\n", s)
	}
	fmt.Printf("BOUNDED-STATS histories=%d exhaustive_histories=%d distinct_nontrivial=%d failures=%d bounds=writes<=%d,offset<%d,length<=%d;random=%d,depth<=%d,seed=%d\n",
		histories, exhaustive, nontrivial, fails, nw, no, nl, nrand, deep, seed)
}
