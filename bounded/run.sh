#!/bin/sh
# usage: run.sh <pkgdir relative to /repo> <bounded test file> <TestName>   (environment VERIF_* is passed through)
# Injects the bounded harness into the package with go test -overlay; nothing is written to /repo.
set -e
export GOFLAGS=-mod=mod GOPROXY=off GOSUMDB=off GOTOOLCHAIN=local
pkg="$1"; test="$2"; name="$3"; REPO="${VERIF_REPO:-/repo}"
tmp=$(mktemp -d); trap 'rm -rf "$tmp"' EXIT
cp "$test" "$tmp/zz_bounded_test.go"
printf '{"Replace":{"%s/%s/zz_bounded_test.go":"%s/zz_bounded_test.go"}}' "$REPO" "$pkg" "$tmp" > "$tmp/ov.json"
cd "$REPO" && go test -overlay "$tmp/ov.json" -vet=off -v -count=1 -timeout ${VERIF_BOUND_TIMEOUT:-600s} -run "^$name\$" "./$pkg" 2>&1 | grep -E "^BOUNDED-|^(ok|FAIL|panic)" || true
