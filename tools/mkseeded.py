#!/usr/bin/env python3
"""Populate /verif/seeded/<ID>-<k>/ (patch.diff, demo/, meta.json) from /tmp/seedout for every seed that
was CONFIRMED by tools/confirm_seeds.py, attach the detection result of tools/seedmatrix.py, and write
/verif/seeded/README.md plus the table for DESIGN.md (tools/design_seeds.md)."""
import json, os, shutil, glob

SRC = '/tmp/seedout'
DST = '/verif/seeded'
rows = []
for d in sorted(glob.glob(f'{SRC}/C*/[ab]')):
    prop, k = d.split('/')[-2:]
    cj = f'{SRC}/confirm/{prop}_{k}.json'
    mj = f'{SRC}/matrix/{prop}_{k}.json'
    if not os.path.exists(cj):
        print('no confirmation for', prop, k); continue
    conf = json.load(open(cj))
    if str(conf.get('confirmed')) != 'True':
        print('NOT confirmed', prop, k); continue
    meta = json.load(open(f'{d}/meta.json'))
    mat = json.load(open(mj)) if os.path.exists(mj) else {}
    out = f'{DST}/{prop}-{k}'
    shutil.rmtree(out, ignore_errors=True)
    os.makedirs(out)
    shutil.copy(f'{d}/patch.diff', f'{out}/patch.diff')
    if os.path.isdir(f'{d}/demo'):
        shutil.copytree(f'{d}/demo', f'{out}/demo')
    orig = f'{SRC}/orig_patches/{prop}_{k}.orig.diff'
    rebased = os.path.exists(orig)
    if rebased:
        shutil.copy(orig, f'{out}/patch.as-produced.diff')
    meta['id'] = f'{prop}-{k}'
    meta['origin'] = 'produced by a fresh sub-agent that saw only the property text and a scratch worktree of /repo; nothing from /verif'
    if rebased:
        meta['rebased'] = 'the patch as produced (patch.as-produced.diff) no longer applied after a fix: commit touched the same lines; patch.diff is the same change carried over to the repaired code by hand and confirmed again'
    meta['confirmation'] = {'by': 'tools/confirm_seeds.py in a scratch worktree (removed afterwards)', 'base_commit': conf.get('base'),
                            'demo_cmd': conf.get('demo_cmd'), 'demo_on_clean_tree_rc': conf.get('demo_clean_rc'), 'applies': conf.get('apply_rc') == 0 or str(conf.get('apply_rc')) == '0',
                            'builds': str(conf.get('build_rc')) == '0', 'demo_with_patch_rc': conf.get('demo_patched_rc'),
                            'baseline_tests_seen': conf.get('baseline_tests_seen'), 'baseline_stable_pass_tests_failing_with_patch': conf.get('baseline_failed_stable')}
    det = {}
    for p, c in (mat.get('checks') or {}).items():
        det[p] = {'exit': c.get('rc'), 'violations': c.get('violations', [])[:4], 'n_violations': c.get('n_violations')}
    meta['detection'] = {'how': 'git -C /repo apply patch.diff; ./check <prop> quick; git -C /repo checkout -- .', 'applies_to_current_tree': mat.get('applies'), 'checks': det,
                         'detected': mat.get('detected')}
    json.dump(meta, open(f'{out}/meta.json', 'w'), indent=1)
    first = ''
    for p, c in det.items():
        if c['exit'] == 1 and c['violations']:
            v = c['violations'][0]
            first = p + ': ' + v.split('obligation=')[1].split(' reason=')[0] if 'obligation=' in v else p
            break
    rows.append((f'{prop}-{k}', (meta.get('summary') or '')[:150].replace('|', '/').replace('\n', ' '), 'yes' if mat.get('detected') else ('n/a' if not mat.get('applies') else '**no**'), first, 'rebased' if rebased else ''))

with open(f'{DST}/README.md', 'w') as f:
    f.write('# Seeded changes\n\nEach directory holds one realistic change that breaks a property while compiling and passing the existing tests: `patch.diff` (apply with `git -C /repo apply`), `demo/` (a test that passes on the clean tree and fails with the patch) and `meta.json` (what it is, how it was confirmed, which check catches it). None of them is ever committed to /repo.\n\n')
    f.write('| seed | change | caught | first failing obligation | note |\n|---|---|---|---|---|\n')
    for r in rows:
        f.write('| %s | %s | %s | `%s` | %s |\n' % r)
with open('/verif/tools/design_seeds.md', 'w') as f:
    f.write('| seed | change | caught by quick check | first failing obligation |\n|---|---|---|---|\n')
    for r in rows:
        f.write('| %s%s | %s | %s | `%s` |\n' % (r[0], ' (rebased)' if r[4] else '', r[1], r[2], r[3]))
print(len(rows), 'seeds kept')
