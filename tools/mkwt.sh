#!/bin/sh
# usage: mkwt.sh <name>   -> scratch worktree of /repo HEAD at /tmp/wt-<name>, contract files hidden
set -e
d=/tmp/wt-$1
git -C /repo worktree add --detach "$d" HEAD >/dev/null 2>&1
cd "$d"
for f in $(git ls-files '*contracts_verif.go' '*_verif.go'); do git update-index --skip-worktree "$f"; rm -f "$f"; done
echo "$d"
