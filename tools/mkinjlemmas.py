#!/usr/bin/env python3
"""Generates theory/strings/inj_<kind>.smt2 and theory/strings/disj_<k1>__<k2>.smt2: over the abstract string theory of
split_*.smt2 (lemma L of split_first.smt2 as the only axiom), two metadata paths built by the builders of pkg/model
(exact concatenations: proved on the code, contracts of pkg/model) coincide only if they are of the same kind and
all their variable components are equal. Literal components are distinct slash-free constants; a file-list name
(bundle-files-<n>.yaml) is an opaque slash-free component different from the descriptor names."""
import itertools, os
OUT = '/verif/theory/strings'
LIT = ['repos', 'repo_yaml', 'bundles', 'bundle_yaml', 'labels', 'label_yaml', 'diamonds', 'diamond_running_yaml',
       'diamond_done_yaml', 'splits', 'split_running_yaml', 'split_done_yaml']
# kind -> components; UPPER = variable component, lower = literal, 'F' = file list name (variable, not a descriptor name)
K = {
 'repo': ['repos', 'R', 'repo_yaml'],
 'bundle': ['bundles', 'R', 'B', 'bundle_yaml'],
 'bundle_filelist': ['bundles', 'R', 'B', 'F'],
 'label': ['labels', 'R', 'L', 'label_yaml'],
 'diamond_running': ['diamonds', 'R', 'D', 'diamond_running_yaml'],
 'diamond_done': ['diamonds', 'R', 'D', 'diamond_done_yaml'],
 'split_running': ['diamonds', 'R', 'D', 'splits', 'S', 'split_running_yaml'],
 'split_done': ['diamonds', 'R', 'D', 'splits', 'S', 'split_done_yaml'],
 'split_filelist': ['diamonds', 'R', 'D', 'splits', 'S', 'G', 'F'],
}
HEAD = """(declare-sort Str 0)
(declare-fun cat (Str Str) Str)
(declare-fun hd (Str) Str)
(declare-fun tl (Str) Str)
(declare-fun noslash (Str) Bool)
(declare-fun hasslash (Str) Bool)
(declare-const slash Str)
(assert (forall ((a Str) (r Str)) (! (=> (noslash a) (and (= (hd (cat a (cat slash r))) a) (= (tl (cat a (cat slash r))) r) (hasslash (cat a (cat slash r))))) :pattern ((cat a (cat slash r))))))
(assert (forall ((a Str)) (! (=> (noslash a) (and (= (hd a) a) (not (hasslash a)))) :pattern ((noslash a)))))
""" + ''.join(f'(declare-const {l} Str)\n(assert (noslash {l}))\n' for l in LIT) + '(assert (distinct ' + ' '.join(LIT) + '))\n'

def inst(kind, tag):
    decl, comps = '', []
    for c in K[kind]:
        if c in LIT:
            comps.append(c)
        else:
            v = f'{tag}_{c}'
            decl += f'(declare-const {v} Str)\n(assert (noslash {v}))\n'
            if c == 'F':  # a file-list name is none of the descriptor names
                decl += '(assert (not (or ' + ' '.join(f'(= {v} {l})' for l in LIT if l.endswith('_yaml')) + ')))\n'
            comps.append(v)
    t = comps[-1]
    for c in reversed(comps[:-1]):
        t = f'(cat {c} (cat slash {t}))'
    return decl, comps, t

for k in K:
    d1, c1, p1 = inst(k, 'x')
    d2, c2, p2 = inst(k, 'y')
    eqs = ' '.join(f'(= {a} {b})' for a, b in zip(c1, c2) if a != b)
    s = f'; lemma (abstract strings, from lemma L of split_first.smt2): two {k} paths that coincide have the same components.   (negated: must be unsat)\n'
    s += HEAD + d1 + d2 + f'(assert (= {p1} {p2}))\n(assert (not (and {eqs})))\n(check-sat)\n'
    open(f'{OUT}/inj_{k}.smt2', 'w').write(s)
for k1, k2 in itertools.combinations(K, 2):
    d1, c1, p1 = inst(k1, 'x')
    d2, c2, p2 = inst(k2, 'y')
    s = f'; lemma (abstract strings, from lemma L of split_first.smt2): a {k1} path and a {k2} path never coincide.   (negated: must be unsat)\n'
    s += HEAD + d1 + d2 + f'(assert (= {p1} {p2}))\n(check-sat)\n'
    open(f'{OUT}/disj_{k1}__{k2}.smt2', 'w').write(s)
print(len(K), 'inj,', len(list(itertools.combinations(K, 2))), 'disj')
