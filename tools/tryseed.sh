#!/bin/sh
# usage: tryseed.sh <prop> <name> <file relative to /repo> <sed expression> [why]
# Applies one deliberate, property-breaking edit to a scratch COPY of /repo (never to /repo itself), checks
# that the copy still builds, runs the registered quick check of <prop> on the copy (-selftest: no evidence
# written) and, if the check reports a violation, keeps the edit as /verif/seeded/<prop>-<name>/patch.diff.
export GOFLAGS=-mod=mod GOPROXY=off GOSUMDB=off GOTOOLCHAIN=local
prop=$1; name=$2; file=$3; expr=$4; why=$5
S=/var/tmp/govc-tryseed.$$
trap 'rm -rf $S' EXIT
mkdir -p $S/a $S/b
(cd /repo && tar -c --exclude=.git --exclude=./testdata . | tar -x -C $S/b)
mkdir -p $S/a/$(dirname $file); cp /repo/$file $S/a/$file
sed -i "$expr" $S/b/$file
(cd $S && diff -u a/$file b/$file > $S/patch.diff)
if [ ! -s $S/patch.diff ]; then echo "NO-CHANGE $prop-$name"; exit 3; fi
(cd $S/b && go build ./$(dirname $file)/ 2>&1 | head -5) | grep . && { echo "NO-BUILD $prop-$name"; exit 3; }
out=$(/verif/bin/govc check -prop $prop -tier quick -repo $S/b -verif /verif -selftest 2>&1)
n=$(echo "$out" | grep -c '^VIOLATION')
echo "$out" | grep '^VIOLATION' | sed 's/replay=[^ ]* //' | cut -c1-260 | head -3
if [ "$n" -gt 0 ]; then
  d=/verif/seeded/$prop-$name; mkdir -p $d; cp $S/patch.diff $d/patch.diff
  printf '%s\n' "$why" > $d/why.txt
  echo "CAUGHT $prop-$name ($n violation lines)"
else
  echo "$out" | tail -2 | cut -c1-200
  echo "MISSED $prop-$name"
fi
