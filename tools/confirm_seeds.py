#!/usr/bin/env python3
"""Confirm seeded changes produced by sub-agents before keeping them under /verif/seeded/.

For each /tmp/seedout/<ID>/<k>/ : in a scratch worktree of /repo at the given base commit
  1. place the demo files, run the demo on the clean tree      -> must pass
  2. apply patch.diff, `go build ./...`, run the demo          -> must fail
  3. run the baseline test packages with the patch             -> every stable_pass test must pass
Results go to /tmp/seedout/confirm/<ID>_<k>.json. Worktrees are removed afterwards.
usage: confirm_seeds.py <base-commit> <ID/k> [<ID/k> ...]
"""
import json, os, re, subprocess, sys, shutil, glob

ENV = dict(os.environ, GOFLAGS='-mod=mod', GOPROXY='off', GOSUMDB='off', GOTOOLCHAIN='local')
BASE = json.load(open('/root/.vp/BASELINE.json'))
STABLE = set(BASE['stable_pass'])


def sh(cmd, cwd, timeout=1500):
    p = subprocess.run(cmd, shell=True, cwd=cwd, env=ENV, stdout=subprocess.PIPE, stderr=subprocess.STDOUT, text=True, timeout=timeout)
    return p.returncode, p.stdout


def demo_target(seed):
    meta = json.load(open(f'{seed}/meta.json'))
    cmd = meta.get('demo_cmd', '')
    readme = open(f'{seed}/demo/README.txt').read() if os.path.exists(f'{seed}/demo/README.txt') else ''
    text = cmd + '\n' + readme
    m = re.search(r'go test[^\n]*?\s(\./pkg/[A-Za-z0-9_/]+?)/?(\s|$)', text)
    if not m:
        m = re.search(r'(pkg/[A-Za-z0-9_/]+)', text)
    d = m.group(1).lstrip('./').rstrip('/')
    r = re.search(r'-run\s+[\'"]?([A-Za-z0-9_|^$()]+)', text)
    return d, (r.group(1) if r else '')


def run_baseline(wt):
    rc, out = sh('go test -vet=off -count=1 -timeout 20m -json ./pkg/... ./internal/... 2>/dev/null', wt)
    res = {}
    for line in out.splitlines():
        try:
            ev = json.loads(line)
        except Exception:
            continue
        if ev.get('Test') and ev.get('Action') in ('pass', 'fail'):
            res[f"{ev['Package']}::{ev['Test']}"] = ev['Action']
    failed = [t for t in STABLE if res.get(t) != 'pass']
    return failed, len(res)


def main():
    base = sys.argv[1]
    os.makedirs('/tmp/seedout/confirm', exist_ok=True)
    for spec in sys.argv[2:]:
        sid, k = spec.split('/')
        seed = f'/tmp/seedout/{sid}/{k}'
        wt = f'/tmp/confirmwt_{sid}_{k}'
        out = {'seed': spec, 'base': base}
        try:
            subprocess.run(['git', '-C', '/repo', 'worktree', 'remove', '--force', wt], stderr=subprocess.DEVNULL)
            subprocess.check_call(['git', '-C', '/repo', 'worktree', 'add', '-q', '--detach', wt, base])
            # contract files (comment-only) are irrelevant to the seeds; keep the tree as is
            d, run = demo_target(seed)
            os.makedirs(f'{wt}/{d}', exist_ok=True)
            for f in glob.glob(f'{seed}/demo/*.go'):
                shutil.copy(f, f'{wt}/{d}/')
            runarg = f"-run '{run}'" if run else ''
            democmd = f"go test -vet=off -count=1 -timeout 10m {runarg} ./{d}/"
            out['demo_cmd'] = democmd
            rc, o = sh(democmd, wt)
            out['demo_clean_rc'] = rc
            out['demo_clean_tail'] = o[-600:]
            rc, o = sh(f'git apply --3way {seed}/patch.diff && git reset -q', wt)
            out['apply_rc'] = rc
            out['apply_out'] = o[-300:]
            rc, o = sh('go build ./...', wt)
            out['build_rc'] = rc
            rc, o = sh(democmd, wt)
            out['demo_patched_rc'] = rc
            out['demo_patched_tail'] = o[-1200:]
            # baseline without the demo files
            for f in glob.glob(f'{seed}/demo/*.go'):
                p = f'{wt}/{d}/{os.path.basename(f)}'
                if os.path.exists(p):
                    os.remove(p)
            failed, n = run_baseline(wt)
            out['baseline_tests_seen'] = n
            out['baseline_failed_stable'] = failed
            out['confirmed'] = (out['demo_clean_rc'] == 0 and out['apply_rc'] == 0 and out['build_rc'] == 0
                                and out['demo_patched_rc'] != 0 and not failed and n > 100)
        except Exception as e:  # noqa
            out['error'] = repr(e)
            out['confirmed'] = False
        finally:
            subprocess.run(['git', '-C', '/repo', 'worktree', 'remove', '--force', wt], stderr=subprocess.DEVNULL)
            shutil.rmtree(wt, ignore_errors=True)
        json.dump(out, open(f'/tmp/seedout/confirm/{sid}_{k}.json', 'w'), indent=1)
        print(spec, 'CONFIRMED' if out['confirmed'] else 'NOT CONFIRMED', flush=True)


if __name__ == '__main__':
    main()
