#!/bin/bash
# usage: sweepseeds.sh [seed dirs...]  -- every seeded change against its property's check, on a scratch COPY of /repo
# (so /repo stays free); prints one line per seed: CAUGHT / MISSED / NOAPPLY.
export GOFLAGS=-mod=mod GOPROXY=off GOSUMDB=off GOTOOLCHAIN=local
copy=/var/tmp/repo_sweep
rm -rf "$copy"; mkdir -p "$copy"; (cd /repo && git archive HEAD | tar -x -C "$copy")
cd /verif
seeds=${@:-$(ls -d seeded/C*/ | sed 's|/$||')}
for s in $seeds; do
  n=$(basename $s); p=${n%%-*}
  if ! (cd "$copy" && patch -p1 -s --no-backup-if-mismatch < /verif/$s/patch.diff) >/dev/null 2>&1; then echo "NOAPPLY $n"; (cd "$copy" && git init -q 2>/dev/null; true); rm -rf "$copy"; mkdir -p "$copy"; (cd /repo && git archive HEAD | tar -x -C "$copy"); continue; fi
  out=$(/verif/bin/govc check -repo "$copy" -prop $p -tier quick -selftest 2>&1)
  v=$(echo "$out" | grep -c "^VIOLATION")
  if [ "$v" -gt 0 ]; then echo "CAUGHT $n ($v) $(echo "$out" | grep "^VIOLATION" | head -1 | sed 's/.*obligation=//' | cut -c1-110)"; else echo "MISSED $n $(echo "$out" | tail -1 | cut -c1-120)"; fi
  (cd "$copy" && patch -p1 -R -s --no-backup-if-mismatch < /verif/$s/patch.diff) >/dev/null 2>&1 || { rm -rf "$copy"; mkdir -p "$copy"; (cd /repo && git archive HEAD | tar -x -C "$copy"); }
done
rm -rf "$copy"
