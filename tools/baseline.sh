#!/bin/bash
# usage: baseline.sh [dir]   -- runs the pinned test suite in dir (default /repo) and compares with BASELINE.json
export GOFLAGS=-mod=mod GOPROXY=off GOSUMDB=off GOTOOLCHAIN=local
cd "${1:-/repo}" || exit 2
out=$(mktemp /var/tmp/baseline.XXXXXX)
go test -mod=mod -json -vet=off -count=1 -timeout 25m ./... > "$out" 2>/dev/null
python3 - "$out" <<'PY'
import json,sys
base=json.load(open('/root/.vp/BASELINE.json'))['stable_pass']
passed=set()
for l in open(sys.argv[1]):
    try: d=json.loads(l)
    except: continue
    if d.get('Action')=='pass' and d.get('Test'):
        passed.add(d['Package']+'::'+d['Test'])
missing=[t for t in base if t not in passed]
print("baseline tests passing: %d/%d"%(len(base)-len(missing),len(base)))
if missing:
    print("NO LONGER PASSING:",missing[:10]); sys.exit(1)
PY
rc=$?; rm -f "$out"; exit $rc
