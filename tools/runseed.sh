#!/bin/bash
# usage: runseed.sh <seed dir> <prop> [<prop>...]  -- apply the seed's patch to /repo, run the registered quick
# check(s) (evidence to a scratch dir), undo the patch. Prints the VIOLATION lines / summary.
d=$(readlink -f "$1"); shift
export VERIF_EVIDENCE_DIR=$(mktemp -d /var/tmp/evseed.XXXXXX)
git -C /repo apply "$d/patch.diff" || { echo "patch does not apply"; exit 2; }
trap 'git -C /repo apply -R "$d/patch.diff"; rm -rf "$VERIF_EVIDENCE_DIR"' EXIT
for p in "$@"; do
  cd /verif && ./check "$p" quick 2>&1 | grep -E "^VIOLATION|^property|ENGINE|error" | cut -c1-400
  echo "exit=$? ($p)"
done
