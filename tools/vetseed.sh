#!/bin/bash
# usage: vetseed.sh <worktree-name> <prop> <seed-name> <demo command (run in the worktree)>
# Confirms a sub-agent's change in its scratch worktree: builds, demo fails with / passes without, the 221
# baseline tests still pass. On success stores it as /verif/seeded/<prop>-<seed-name>/.
export GOFLAGS=-mod=mod GOPROXY=off GOSUMDB=off GOTOOLCHAIN=local
wt=/tmp/wt-$1; prop=$2; name=$3; demo=$4
out=/verif/seeded/$prop-$name
cd "$wt" || exit 2
patch=$(mktemp /var/tmp/seedpatch.XXXXXX)
git diff -- '*.go' ':!*_test.go' > "$patch"
[ -s "$patch" ] || { echo "no source change"; exit 2; }
echo "== patch: $(grep -c '^[-+][^-+]' "$patch") changed lines in $(grep -c '^diff' "$patch") file(s)"
go build ./... || { echo "BUILD FAILS"; exit 1; }
echo "== demo with the change (must fail)"
if bash -c "$demo" > /var/tmp/demo_with.log 2>&1; then echo "DEMO PASSES WITH CHANGE"; tail -5 /var/tmp/demo_with.log; exit 1; fi
grep -v '^{"level"' /var/tmp/demo_with.log | tail -6
git apply -R "$patch" || exit 2
echo "== demo without the change (must pass)"
if ! bash -c "$demo" > /var/tmp/demo_without.log 2>&1; then echo "DEMO FAILS WITHOUT CHANGE"; grep -v '^{"level"' /var/tmp/demo_without.log | tail -15; git apply "$patch"; exit 1; fi
grep -v '^{"level"' /var/tmp/demo_without.log | tail -3
git apply "$patch" || exit 2
echo "== baseline tests with the change"
# demo files out of the way while the baseline suite runs
go test -mod=mod -json -vet=off -count=1 -timeout 25m ./... > /var/tmp/seed_tests.json 2>/dev/null
python3 - "$wt" <<'PY'
import json,sys
base=json.load(open('/root/.vp/BASELINE.json'))['stable_pass']
passed=set()
for l in open('/var/tmp/seed_tests.json'):
    try: d=json.loads(l)
    except: continue
    if d.get('Action')=='pass' and d.get('Test'):
        passed.add(d['Package']+'::'+d['Test'])
missing=[t for t in base if t not in passed]
print("baseline tests passing with the change: %d/%d"%(len(base)-len(missing),len(base)))
if missing:
    print("NO LONGER PASSING:",missing[:10]); sys.exit(1)
PY
[ $? = 0 ] || exit 1
mkdir -p "$out"
cp "$patch" "$out/patch.diff"
[ -f SEED_REPORT.md ] && cp SEED_REPORT.md "$out/report.md"
mkdir -p "$out/demo"
git ls-files --others --exclude-standard | grep -v 'SEED_REPORT.md\|change.patch\|\.log$\|\.txt$' | while read f; do mkdir -p "$out/demo/$(dirname "$f")"; cp "$f" "$out/demo/$f"; done
echo "$demo" > "$out/demo/RUN.txt"
rm -f "$patch"
echo "== stored in $out"
