#!/usr/bin/env python3
"""Regenerates the second table of /verif/seeded/README.md (changes written by independent sub-agents) from the meta.json files."""
import json, glob, os, re
p='/verif/seeded/README.md'
s=open(p).read()
marker='\n## Changes written by independent sub-agents'
if marker in s:
    s=s[:s.index(marker)]
rows=[]
for m in sorted(glob.glob('/verif/seeded/*-agent*/meta.json')):
    d=json.load(open(m))
    rows.append('| %s | %s | %s | %s |' % (d['seed'], d['needs_to_manifest'].replace('|','/'), d['detection'].replace('|','/'), '<br>'.join('`%s`'%o for o in d['failing_obligations'])))
s=s.rstrip('\n')+'\n'+marker+'\n\nEach directory holds `patch.diff`, `demo/` (the agent\'s demonstration; `demo/RUN.txt` is the command, run from the root of a tree with the patch applied), `report.md` (the agent\'s report) and `meta.json`. The agents saw only the text of the property and a scratch worktree without the contract files; `-agent2-` to `-agent5-` ones (later rounds) were also told, in a sentence each, what the earlier changes for that property were, and asked for a different function and mechanism. See DESIGN.md 10.10.\n\n| seed | needs, in order to manifest | detection | failing obligation(s) |\n|---|---|---|---|\n'+'\n'.join(rows)+'\n'
open(p,'w').write(s)
print(len(rows),'rows')
