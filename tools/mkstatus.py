#!/usr/bin/env python3
"""Rewrites the table of DESIGN.md 10.3 (status per property) from props/*.json, locks/*.lock, known_findings.json."""
import json, glob, re, os
V='/verif'
kf=json.load(open(f'{V}/known_findings.json'))
ids=[json.loads(l)['id'] for l in open(f'{V}/properties.jsonl')]
rows=[]
for i in ids:
    pf=f'{V}/props/{i}.json'
    if not os.path.exists(pf):
        rows.append(f'| {i} | — | — | — | not applicable (10.8) |'); continue
    d=json.load(open(pf))
    n=len([l for l in open(f'{V}/locks/{i}.lock') if l.strip()])
    nf=len(d['functions'])
    pk=sorted({f.split('.')[0] for f in d['functions']})
    fixed=sorted({k['commit'] for k in kf if k['property']==i and k['status']=='fixed'})
    opn=[k for k in kf if k['property']==i and k['status']=='open']
    lvl='proof' if 'bounded' not in d else '**exploration (bounded)** + proofs'
    out=[]
    if fixed: out.append('%d defect(s) repaired (%s)'%(len(fixed),', '.join('`%s`'%c for c in fixed)))
    if opn: out.append('%d open finding(s)'%len(opn))
    if not out: out.append('holds for what is claimed')
    rows.append(f'| {i} | {lvl} | {nf} functions in {", ".join(pk)} | {n} | {"; ".join(out)} |')
s=open(f'{V}/DESIGN.md').read()
a=s.index('| Prop | Level | Functions under contract')
b=s.index('"holds" always means')
hdr='| Prop | Level | Functions under contract | Claimed obligations | Outcome |\n|---|---|---|---|---|\n'
s=s[:a]+hdr+'\n'.join(rows)+'\n\n'+s[b:]
open(f'{V}/DESIGN.md','w').write(s)
print('\n'.join(rows))
