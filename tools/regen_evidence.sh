#!/bin/bash
# Regenerates /verif/evidence/<id>.json from the UNCHANGED /repo under the probe environment and validates it.
cd /verif
git -C /repo diff --quiet || { echo "/repo has uncommitted changes: refusing"; exit 2; }
unset VERIF_EVIDENCE_DIR
export VERIF_SEED=1 VERIF_TIER=quick
ps=${@:-C01 C02 C03 C04 C05 C06 C07 C08 C09 C10 C11 C12 C13 C14 C16 C17 C18 C19 C20 C21 C22}
rc=0
for p in $ps; do
  rm -f evidence/$p.json
  out=$(./check $p quick 2>&1); code=$?
  echo "$out" | grep -E "^VIOLATION|^property|ENGINE" | cut -c1-250
  [ $code = 0 ] || { echo "!! $p exit $code"; rc=1; }
  python3-vt - "$p" <<'PY' || rc=1
import json,sys,jsonschema
p=sys.argv[1]
d=json.load(open('/verif/evidence/%s.json'%p))
jsonschema.validate(d,json.load(open('/root/.vp/EVIDENCE.schema.json')))
c=d['coverage']
if d['level']=='proof' and c['obligations']!=c['discharged']:
    print('!! evidence mismatch',p,c['obligations'],c['discharged']); sys.exit(1)
PY
done
exit $rc
