#!/usr/bin/env python3
"""Writes /verif/seeded/<seed>/meta.json for the changes written by independent sub-agents
(each saw only the property text and a scratch worktree of /repo). The table below is maintained by hand
from the agents' reports and from my own runs (tools/vetseed.sh, tools/runseed.sh)."""
import json, os
RAN = ("tools/vetseed.sh in the agent's scratch worktree: go build ./...; the demonstration fails with the change and "
       "passes with it reverted; go test -json ./... with the change passes all 221 baseline tests. "
       "tools/runseed.sh: patch applied to /repo (git apply), ./check <property> quick with evidence to a scratch "
       "directory, patch undone (git apply -R).")
S = {
 "C01-agent-zero-copy-retains-caller-buffer": ("C01", "a WriterTo source handing leaf-sized chunks from a buffer it reuses (bufio.NewReaderSize(r, >= leafSize)) while a leaf flush is still in flight: the asynchronous flush hashes/uploads caller memory that has been refilled",
   "caught at once", ["cafs.(*fsWriter).Write#callsite:pFlush#1:own-buffer (clause no longer attachable)", "cafs.(*fsWriter).Write#inv-pres:L1:stream#2"]),
 "C02-agent-zero-copy-key-depends-on-timing": ("C02", "same mechanism as the C01 change, seen from the key: with a recycled source buffer the returned root key depends on flush timing",
   "caught at once", ["cafs.(*fsWriter).Write#callsite:pFlush#1:own-buffer", "cafs.(*fsWriter).Write#inv-pres:L1:stream#2"]),
 "C03-agent-truncation-disables-verification": ("C03", "a bundle whose descriptor has Version < 1 (readers built with leaf truncation) and a damaged leaf blob: the constructor silently turns verification off",
   "missed first; caught after adding the frame clause 'only store:withVerifyHash 0' on newReader plus the option/fs-setting contracts", ["cafs.newReader#frame:sites:store:withVerifyHash"]),
 "C04-agent-buffered-results-dropped": ("C04", "more than 1000 files with a small remainder and a slow index write: the done signal overtakes results still queued in the (now buffered) channel",
   "missed first (a channel-protocol rely, not stated); caught after stating the rely as call-site obligations: results are handed over by rendezvous (cap == 0) and the done signal follows the return of every uploader", ["core.uploadBundle#callsite:uploadBundleFiles#1:results-handed-over-not-queued"]),
 "C05-agent-diff-needs-size-and-hash": ("C05", "an in-place edit that keeps the file length", "caught at once", ["core.diffBundles#inv-pres:L3:step:changed-once#2"]),
 "C06-agent-errnotexists-flattened": ("C06", "an upload interrupted between a file list and bundle.yaml, then a listing: the %v-wrapped error no longer matches the ErrNotExists skip in getBundleAsync (two cooperating sites)",
   "missed first; caught after modelling fmt.Errorf (%w keeps the chain, anything else does not) and adding 'a missing descriptor stays recognisable' / 'a missing descriptor is not an error' to downloadBundleDescriptor / getBundleAsync", ["core.downloadBundleDescriptor#post:not-found-stays-not-found"]),
 "C07-agent-empty-page-ends-listing": ("C07", "a split owning a page-full of file-list keys, so that a filtered page is empty but has a continuation token", "caught at once", ["core.fetchKeys#post:complete"]),
 "C08-agent-label-prefix-loses-slash": ("C08", "two repositories one of whose names is a strict prefix of the other, on a store with exact prefix semantics",
   "missed by C08's check first although C20's check caught it (the label path builders were only in C20's function list); C08 now has them under contract itself", ["model.GetArchivePathToLabel#post:1", "model.GetArchivePathPrefixToLabels#post:1"]),
 "C09-agent-delete-entries-counter-not-reset": ("C09", "at least two bundles holding the path, a later one with more than 1000 entries and the path in its second file list", "caught at once", ["core.DeleteEntriesFromRepo#inv-pres:L3:step:kept-or-dropped", "core.DeleteEntriesFromRepo#inv-pres:L2:step:rewritten-iff-modified"]),
 "C10-agent-last-label-decides-retention": ("C10", "retain-semver-tags without retain-tags, a bundle outside the N latest carrying a semver label and a plain label listed last", "caught at once", ["core.RepoSquash#callsite:DeleteBundle#1:labelled-kept", "core.RepoSquash#inv-pres:L2:step:semver-tag-retained#2"]),
 "C11-agent-pack-stamps-start-time": ("C11", "two splits overlapping in time, the one that started first uploading the shared path last", "caught at once", ["core.(*fileIndex).pack#callsite:Now#1:after-receipt"]),
 "C12-agent-any-read-error-means-initialized": ("C12", "a terminated diamond and one transient (non not-found) failure reading diamond-done.yaml: the stale initial-state descriptor is used",
   "missed first (downloadDescriptor had no contract); caught after adding 'initial state only when the final state does not exist' for diamonds and splits and error-identity contracts on readMetadata", ["core.(*Diamond).downloadDescriptor#callsite:readMetadata#2:initial-state-only-when-final-is-absent"]),
 "C13-agent-resume-overwrites-last-chunk": ("C13", "an index build interrupted after a non-empty chunk, resumed, then delete-unused: the first resumed chunk reuses the last uploaded chunk number (two cooperating sites: uploader numbering and options.indexStart = lastIndex)",
   "missed by C13's check first although C14's caught it (uploader$1 was only in C14's function list); uploader$1 is now checked under C13 too and the resume site asserts indexStart >= last chunk", ["core.uploader$1#callsite:chunkUploader#1:fresh-chunk-index"]),
 "C14-agent-failed-lock-deletes-lock": ("C14", "a non-GCS store and three jobs: A holds the lock, B is refused and erases A's lock, C acquires it",
   "missed first; caught after adding the postcondition 'a held lock survives an unforced attempt' (over the abstract store) and the frame 'only Delete 0' to PurgeLock", ["core.PurgeLock#post:a-held-lock-survives-an-unforced-attempt", "core.PurgeLock#frame:sites:Delete"]),
 "C17-agent-parent-link-lost-on-realloc": ("C17", "a bundle entry introducing 16 or more unseen directory levels: the parent link is written through a pointer into the old backing array of a slice that append has just reallocated",
   "missed first (tree construction was not under contract); caught after putting WithNodesFromEntry under contract (parent chain, fresh increasing inodes) - which needed exact append of struct elements, cell writes through pointer parameters and trigger selection in the engine", ["fuse.(*populate).WithNodesFromEntry#inv-pres:L1:chain", "fuse.(*populate).WithNodesFromEntry#post:chain"]),
 "C18-agent-highest-lowered-past-freed": ("C18", "two directories with adjacent inodes removed lower-first with the kernel's forgets, then two creations", "caught at once", ["fuse.(*iNodeGenerator).freeINode#post:wf", "fuse.(*iNodeGenerator).freeINode#post:others-kept"]),
 "C16-agent-stale-listing-cache-after-full-last-page": ("C16", "a listing whose last page is exactly full (entry count a multiple of the page size), then a change under that prefix, then a new listing on the same store instance: the stale cached scan is served",
   "missed first; caught after adding the pagination postconditions and 'the cached scan is dropped when the listing ends' to KeysPrefix", ["localfs.(*localFS).KeysPrefix#post:scan-dropped-when-listing-ends"]),
 "C19-agent-token-stamped-with-previous-touch": ("C19", "a long-lived WAL with a gap of more than 20 minutes between appends, then two appends and a listing from the newer token", "caught at once", ["wal.(*WAL).getToken#callsite:GetAttr#1:after-touch"]),
 "C20-agent-generated-regexp-word-boundary": ("C20", "a top-level entry named with a reserved name followed by a non-word, non-slash character (.datamon.yaml, .conflicts.md)", "caught at once (the regex clauses of genFileRe can no longer be established: the translated expression uses a word-boundary operator the translation does not cover, reported as a violation of the claimed clauses)", ["model.regex:genFileRe#regex:only-reserved-or-known", "model.regex:genFileRe#regex:reserved-recognised"]),
 "C21-agent-separators-may-coincide": ("C21", "some value contains ';', none contains ':', and the values together use every digit 0-9: both separators become ':'",
   "missed first (setSeparators only had call-site clauses, which the change kept); caught after adding the postconditions taken from the property (the separators differ and occur in no value), over string-containment lemmas proved by cvc5", ["param.setSeparators#post:separators-differ", "param.setSeparators#post:absent-from-every-value"]),
 "C22-agent-write-ending-at-range-start": ("C22", "three writes: a range, a write ending exactly at its start, then a write starting strictly inside it", "caught at once, by the per-marker contracts and by the bounded stand-in with a failing history (1:2,0:1,2:1)", ["filetracker.(*TFile).trackWrite$1#post:end-marker-present", "bounded:1:2,0:1,2:1"]),
}
for seed, (prop, needs, outcome, obls) in S.items():
    d = "/verif/seeded/" + seed
    if not os.path.isdir(d):
        continue
    meta = {"seed": seed, "breaks_property": prop, "written_by": "independent sub-agent (given only the property text and a scratch git worktree of /repo, nothing from /verif)",
            "needs_to_manifest": needs, "files": ["patch.diff (the change)", "demo/ (the demonstration, with demo/RUN.txt = the command run in the worktree root)", "report.md (the agent's report)"],
            "what_i_ran": RAN, "detection": outcome, "failing_obligations": obls}
    json.dump(meta, open(d + "/meta.json", "w"), indent=1)
print("ok")
