#!/bin/sh
# usage: trymut.sh <patch> <pkgs> <funcs>  -- apply a seed patch to /repo temporarily and list non-discharged contract obligations
set -e
cd /repo
git diff --quiet || { echo "repo dirty"; exit 2; }
git apply "$1"
cd /verif/engine
/verif/bin/govc verify -pkgs "$2" -funcs "$3" -timeout ${4:-10} 2>&1 | grep -v "^discharged\|model:\|#nil:\|#bounds:" | cut -c1-260 || true
cd /repo && git checkout -- . && git status --short
