#!/bin/bash
# usage: runall.sh [props...]  -- run the quick checks one after the other with evidence to a scratch dir
export VERIF_EVIDENCE_DIR=${VERIF_EVIDENCE_DIR:-/var/tmp/ev_runall}
mkdir -p "$VERIF_EVIDENCE_DIR"
cd /verif
ps=${@:-C01 C02 C03 C04 C05 C06 C07 C08 C09 C10 C11 C12 C13 C14 C16 C17 C18 C19 C20 C21 C22}
for p in $ps; do
  ./check $p quick 2>&1 | grep -E "^VIOLATION|^property|ENGINE|rror" | cut -c1-300
done
