#!/usr/bin/env python3
"""Regenerate /verif/MANIFEST.json from props/*.json, locks/ and the texts in tools/props_text.json."""
import json, os, subprocess, glob

V = '/verif'
ids = [json.loads(l)['id'] for l in open(f'{V}/properties.jsonl')]
text = json.load(open(f'{V}/tools/props_text.json'))
claimed = []
for i in ids:
    if os.path.exists(f'{V}/props/{i}.json') and os.path.exists(f'{V}/locks/{i}.lock') and i in text.get('checks', {}):
        claimed.append(i)
try:
    commits = subprocess.check_output(['git', '-C', '/repo', 'log', '--format=%h %s'], text=True).splitlines()
except Exception:
    commits = []
hooks = [c.split()[0] for c in commits if 'verif hook' in c]
checks = []
for i in claimed:
    t = text['checks'][i]
    checks.append({
        'property_id': i,
        'quick_cmd': f'./check {i} quick',
        'thorough_cmd': f'./check {i} thorough',
        'evidence_file': f'/verif/evidence/{i}.json',
        'replay_cmd_template': './replay.sh {path}',
        'engine': 'govc',
        'level_claimed': {'category': t.get('category', 'proof'), 'text': t['level_text'], 'design_ref': t.get('design_ref', 'DESIGN.md section 4, ' + i)},
        'level_note': t['level_note'],
        'technique': t.get('technique', 'contract-based deductive verification: weakest-precondition VCs generated from go/ssa of the real code against //@ contracts, discharged by z3/cvc5'),
    })
na = []
for i in ids:
    if i not in claimed:
        na.append({'property_id': i, 'reason': text['not_applicable'].get(i, 'no contract-based check built for this property yet; see DESIGN.md section 4/5')})
m = {
    'version': 1,
    'setup_cmd': 'cd /verif/engine && GOFLAGS=-mod=mod GOPROXY=off GOSUMDB=off GOTOOLCHAIN=local go build -o /verif/bin/govc .',
    'hooks': {
        'guard': 'verif',
        'enable': 'contract files /repo/pkg/<p>/contracts_verif.go carry //go:build verif and contain comments only; govc reads them as text, so no build with the tag is needed (building with -tags verif adds no code)',
        'baseline_off_cmd': 'cd /repo && go test -mod=mod -vet=off -count=1 -timeout 25m ./...',
        'source_commits': hooks,
        'add_only': True,
    },
    'engines': [{'name': 'govc', 'path': '/verif/engine', 'serves_properties': claimed,
                 'kind_free_text': 'home-grown deductive verifier for Go: go/packages + go/ssa (naive form) of /repo working tree -> passive-form VCs with loop cutting, modular call handling against //@ contracts, field-sensitive modifies inference; one SMT query per named obligation raced on z3 4.8.12 / z3 5.1.0 / cvc5 1.0'}],
    'checks': checks,
    'notes': text.get('notes', ''),
    'not_applicable': na,
}
json.dump(m, open(f'{V}/MANIFEST.json', 'w'), indent=1)
print('claimed', claimed)
