#!/usr/bin/env python3
"""usage: reclaim.py <prop> <obligation>...   -- puts obligations that a lock run left out only because of
machine jitter ("discharges too slowly", verified fast on their own) back into locks/<prop>.lock."""
import json, sys
prop, names = sys.argv[1], sys.argv[2:]
lf, uf = f'/verif/locks/{prop}.lock', f'/verif/locks/{prop}.unclaimed.json'
lock = [l for l in open(lf).read().split('\n') if l]
uncl = json.load(open(uf))
for n in names:
    e = [u for u in uncl if u['name'] == n]
    if not e or e[0]['verdict'] != 'discharged':
        sys.exit(f'{n}: not an unclaimed discharged obligation of {prop}')
    uncl = [u for u in uncl if u['name'] != n]
    lock.append(n)
lock = sorted(set(lock), key=lambda s: s.encode())
open(lf, 'w').write('\n'.join(lock) + '\n')
json.dump(uncl, open(uf, 'w'), indent=1)
print(prop, len(lock))
