#!/usr/bin/env python3
"""Run the registered checks against every seeded change: apply the patch to /repo, run
./check <prop> quick (own property + listed extras), revert. Results: /tmp/seedout/matrix/<ID>_<k>.json.
usage: seedmatrix.py [ID/k ...]   (default: all seeds under /tmp/seedout or /verif/seeded)"""
import json, os, subprocess, sys, glob, re

SRC = os.environ.get('SEED_SRC', '/tmp/seedout')
OUT = '/tmp/seedout/matrix'
EXTRA = {'C17/b': ['C01'], 'C08/b': ['C20'], 'C10/a': ['C06'], 'C10/b': ['C09'], 'C04/b': ['C07'], 'C07/a': ['C04'], 'C07/b': ['C04']}
os.makedirs(OUT, exist_ok=True)
# the checks run here see a deliberately broken /repo: keep their evidence out of /verif/evidence
os.environ['VERIF_EVIDENCE_DIR'] = OUT + '/evidence'

def sh(cmd, cwd='/verif', timeout=1800):
    p = subprocess.run(cmd, shell=True, cwd=cwd, stdout=subprocess.PIPE, stderr=subprocess.STDOUT, text=True, timeout=timeout)
    return p.returncode, p.stdout

seeds = sys.argv[1:]
if not seeds:
    for d in sorted(glob.glob(f'{SRC}/C*/[ab]')):
        seeds.append('/'.join(d.split('/')[-2:]))
for s in seeds:
    prop, k = s.split('/')
    patch = f'{SRC}/{s}/patch.diff'
    res = {'seed': s, 'checks': {}}
    rc, out = sh('git status --short', '/repo')
    if out.strip():
        print('repo dirty, abort', out); sys.exit(2)
    rc, out = sh(f'git apply --check {patch}', '/repo')
    if rc != 0:
        res['applies'] = False
        res['apply_error'] = out[-400:]
    else:
        res['applies'] = True
        sh(f'git apply {patch}', '/repo')
        try:
            for p in [prop] + EXTRA.get(s, []):
                if not os.path.exists(f'/verif/props/{p}.json'):
                    res['checks'][p] = {'rc': None, 'note': 'no check for this property'}
                    continue
                rc, out = sh(f'./check {p} quick')
                viol = [l for l in out.splitlines() if l.startswith('VIOLATION')]
                res['checks'][p] = {'rc': rc, 'violations': [re.sub(r'replay=\S+ ', '', v)[:400] for v in viol][:8], 'n_violations': len(viol),
                                    'tail': out.splitlines()[-1:] }
        finally:
            sh('git checkout -- .', '/repo')
    res['detected'] = any(c.get('rc') == 1 for c in res['checks'].values())
    json.dump(res, open(f'{OUT}/{prop}_{k}.json', 'w'), indent=1)
    print(s, 'applies' if res['applies'] else 'NO-APPLY', 'DETECTED' if res['detected'] else 'missed', {p: c.get('rc') for p, c in res['checks'].items()}, flush=True)
