#!/usr/bin/env python3
import json,sys
pid=sys.argv[1]; extra=sys.argv[2] if len(sys.argv)>2 else ''
wt='/tmp/wt-'+(sys.argv[3] if len(sys.argv)>3 else pid)
for l in open('/verif/properties.jsonl'):
    d=json.loads(l)
    if d['id']==pid: break
files=', '.join(d['anchors']['files'])
print(f"""You are testing how robust a Go code base is against subtle regressions. Work ONLY inside {wt}, which is a scratch git worktree of the open-source repository oneconcern/datamon (a versioned dataset manager: files stored as deduplicated blake2-hashed blobs on GCS/S3/local fs, bundles, labels, diamond multi-writer commits, WAL, FUSE mounts). Do not read or write anything under /repo or /verif, and do not create other worktrees. There is no network. In every shell call first run: export GOFLAGS=-mod=mod GOPROXY=off GOSUMDB=off GOTOOLCHAIN=local

A semantic property users of datamon rely on:

  "{d['title']}": {d['statement']}

(Code this property mostly rests on: {files}.)

Your task: make ONE realistic change to the non-test Go source in {wt} (the kind of slip a maintainer could make in a refactoring or 'optimisation': a few lines, at most ~25) that BREAKS this property, while
  (a) the repository still compiles: `go build ./...`
  (b) every existing test that passes without your change still passes with it. Run `go test -vet=off -count=1 ./... 2>&1 | tail -60` before and after (about 1 minute). NOTE: some packages already fail without any change because the sandbox is offline or files are missing (cmd/datamon/cmd, pkg/storage/gcs, pkg/storage/sthree, pkg/auth/google, one WAL test, and pkg/core's own test files do not build because the package pkg/storage/mockstorage is absent). Those do not count; but no package/test that passed before may fail after.
  (c) the breakage needs something SPECIFIC to manifest — a particular interleaving or arrival order, a crash or store fault at a particular point, a multi-step sequence of operations, an unusual input (size, boundary, name), or two cooperating sites that each look fine alone — not something that ordinary use would expose at once.
{extra}
Then write a DEMONSTRATION: a new Go test file (or small program) in the worktree that exercises the REAL code and FAILS with your change and PASSES without it (check both: save your edit with `git diff -- '*.go' > change.patch`, revert with `git apply -R change.patch`, re-apply with `git apply change.patch`; do NOT use `git stash`, `git commit`, `git checkout` of branches or any command that alters refs — the git database is shared with other worktrees). Because pkg/core's shipped *_test.go files do not build, a demonstration for pkg/core code must either live in a new sub-directory/package that imports the package (using exported API and e.g. the in-memory afero-backed localfs store `localfs.New(afero.NewMemMapFs())`), or be run with a `go test -overlay` JSON that replaces the broken test files by empty `package core` stubs. Keep the demonstration deterministic and quick (<60 s).

Do NOT commit anything. Leave the worktree with your source change applied (uncommitted) and the demonstration as new untracked file(s). Write {wt}/SEED_REPORT.md containing: (1) the files and functions changed and why this breaks the property, (2) what it needs in order to manifest, (3) the exact command(s) to run the demonstration, (4) the tail of the demonstration's output with the change and without it, (5) confirmation of (a) and (b) with the commands you ran. Files named contracts_verif.go have been removed from this worktree on purpose; ignore them and never re-create them. Your final message should be a 5-line summary.""")
