package main

// Spec expression language: Go-like expressions extended with old(e), ==>, <==>,
// forall/exists, predicate macros and uninterpreted spec functions.

import (
	"fmt"
	"strings"
	"unicode"
)

type SExpr interface{}

type (
	SInt   struct{ v string }
	SStr   struct{ v string }
	SIdent struct{ name string }
	SSel   struct {
		x    SExpr
		name string
	}
	SIndex struct{ x, i SExpr }
	SSlice struct{ x, lo, hi SExpr }
	SCall  struct {
		fun  string
		args []SExpr
	}
	SUn struct {
		op string
		x  SExpr
	}
	SBin struct {
		op   string
		x, y SExpr
	}
	SQuant struct {
		forall bool
		vars   []string
		sorts  []string
		body   SExpr
	}
	SOld struct{ x SExpr }
)

type tok struct {
	kind string // int str id op eof
	s    string
}

func lexSpec(src string) ([]tok, error) {
	var out []tok
	i := 0
	rs := []rune(src)
	for i < len(rs) {
		c := rs[i]
		switch {
		case unicode.IsSpace(c):
			i++
		case unicode.IsDigit(c):
			j := i
			for j < len(rs) && (unicode.IsDigit(rs[j]) || rs[j] == '_' || rs[j] == 'x' || (rs[j] >= 'a' && rs[j] <= 'f') || (rs[j] >= 'A' && rs[j] <= 'F')) {
				j++
			}
			out = append(out, tok{"int", strings.ReplaceAll(string(rs[i:j]), "_", "")})
			i = j
		case unicode.IsLetter(c) || c == '_' || c == '$':
			j := i + 1
			for j < len(rs) && (unicode.IsLetter(rs[j]) || unicode.IsDigit(rs[j]) || rs[j] == '_' || rs[j] == '$' || rs[j] == '#') {
				j++
			}
			out = append(out, tok{"id", string(rs[i:j])})
			i = j
		case c == '"':
			j := i + 1
			for j < len(rs) && rs[j] != '"' {
				if rs[j] == '\\' {
					j++
				}
				j++
			}
			if j >= len(rs) {
				return nil, fmt.Errorf("unterminated string in %q", src)
			}
			out = append(out, tok{"str", string(rs[i+1 : j])})
			i = j + 1
		default:
			ops := []string{"<==>", "==>", "::", "==", "!=", "<=", ">=", "&&", "||", "<<", ">>"}
			matched := false
			for _, o := range ops {
				if strings.HasPrefix(string(rs[i:]), o) {
					out = append(out, tok{"op", o})
					i += len([]rune(o))
					matched = true
					break
				}
			}
			if !matched {
				if strings.ContainsRune("+-*/%<>!()[].,:&|", c) {
					out = append(out, tok{"op", string(c)})
					i++
				} else {
					return nil, fmt.Errorf("bad character %q in %q", c, src)
				}
			}
		}
	}
	out = append(out, tok{"eof", ""})
	return out, nil
}

type sparser struct {
	t   []tok
	pos int
	src string
}

func parseSpec(src string) (e SExpr, err error) {
	t, err := lexSpec(src)
	if err != nil {
		return nil, err
	}
	p := &sparser{t: t, src: src}
	defer func() {
		if r := recover(); r != nil {
			err = fmt.Errorf("spec parse error in %q: %v", src, r)
		}
	}()
	e = p.expr()
	if p.peek().kind != "eof" {
		panic(fmt.Sprintf("unexpected %q", p.peek().s))
	}
	return e, nil
}

func (p *sparser) peek() tok { return p.t[p.pos] }
func (p *sparser) next() tok  { t := p.t[p.pos]; p.pos++; return t }
func (p *sparser) isOp(s string) bool {
	return p.peek().kind == "op" && p.peek().s == s
}
func (p *sparser) expect(s string) {
	if !p.isOp(s) {
		panic(fmt.Sprintf("expected %q, got %q", s, p.peek().s))
	}
	p.pos++
}

func (p *sparser) expr() SExpr {
	if p.peek().kind == "id" && (p.peek().s == "forall" || p.peek().s == "exists") {
		q := &SQuant{forall: p.next().s == "forall"}
		for {
			name := p.next()
			if name.kind != "id" {
				panic("quantifier variable expected")
			}
			sort := "int"
			if p.peek().kind == "id" {
				sort = p.next().s
			}
			q.vars = append(q.vars, name.s)
			q.sorts = append(q.sorts, sort)
			if p.isOp(",") {
				p.pos++
				continue
			}
			break
		}
		p.expect("::")
		q.body = p.expr()
		return q
	}
	return p.iff()
}

func (p *sparser) iff() SExpr {
	x := p.implies()
	for p.isOp("<==>") {
		p.pos++
		y := p.implies()
		x = &SBin{"<==>", x, y}
	}
	return x
}

func (p *sparser) implies() SExpr {
	x := p.or()
	if p.isOp("==>") {
		p.pos++
		var y SExpr
		if p.peek().kind == "id" && (p.peek().s == "forall" || p.peek().s == "exists") {
			y = p.expr()
		} else {
			y = p.implies()
		}
		return &SBin{"==>", x, y}
	}
	return x
}

func (p *sparser) or() SExpr {
	x := p.and()
	for p.isOp("||") {
		p.pos++
		x = &SBin{"||", x, p.and()}
	}
	return x
}

func (p *sparser) and() SExpr {
	x := p.cmp()
	for p.isOp("&&") {
		p.pos++
		x = &SBin{"&&", x, p.cmp()}
	}
	return x
}

func (p *sparser) cmp() SExpr {
	x := p.add()
	var res SExpr
	for {
		t := p.peek()
		if t.kind == "op" && (t.s == "==" || t.s == "!=" || t.s == "<" || t.s == "<=" || t.s == ">" || t.s == ">=") {
			p.pos++
			y := p.add()
			c := &SBin{t.s, x, y}
			if res == nil {
				res = c
			} else {
				res = &SBin{"&&", res, c}
			}
			x = y
			continue
		}
		break
	}
	if res != nil {
		return res
	}
	return x
}

func (p *sparser) add() SExpr {
	x := p.mul()
	for p.isOp("+") || p.isOp("-") {
		op := p.next().s
		x = &SBin{op, x, p.mul()}
	}
	return x
}

func (p *sparser) mul() SExpr {
	x := p.unary()
	for p.isOp("*") || p.isOp("/") || p.isOp("%") {
		op := p.next().s
		x = &SBin{op, x, p.unary()}
	}
	return x
}

func (p *sparser) unary() SExpr {
	if p.isOp("!") || p.isOp("-") {
		op := p.next().s
		return &SUn{op, p.unary()}
	}
	return p.postfix()
}

func (p *sparser) postfix() SExpr {
	x := p.primary()
	for {
		switch {
		case p.isOp("."):
			p.pos++
			n := p.next()
			if n.kind != "id" {
				panic("field name expected")
			}
			x = &SSel{x, n.s}
		case p.isOp("["):
			p.pos++
			var lo, hi SExpr
			if !p.isOp(":") {
				lo = p.expr()
			}
			if p.isOp(":") {
				p.pos++
				if !p.isOp("]") {
					hi = p.expr()
				}
				p.expect("]")
				x = &SSlice{x, lo, hi}
			} else {
				p.expect("]")
				x = &SIndex{x, lo}
			}
		case p.isOp("("):
			// call: x must be identifier or pkg.ident
			name := ""
			switch f := x.(type) {
			case *SIdent:
				name = f.name
			case *SSel:
				if id, ok := f.x.(*SIdent); ok {
					name = id.name + "." + f.name
				}
			}
			if name == "" {
				panic("call of non-identifier")
			}
			p.pos++
			var args []SExpr
			for !p.isOp(")") {
				args = append(args, p.expr())
				if p.isOp(",") {
					p.pos++
				}
			}
			p.expect(")")
			if name == "old" {
				if len(args) != 1 {
					panic("old takes one argument")
				}
				x = &SOld{args[0]}
			} else if name == "prev" {
				// prev(e): value of e at the head of the current loop iteration (loop step clauses)
				if len(args) != 1 {
					panic("prev takes one argument")
				}
				x = &SCall{"$prev", args}
			} else {
				x = &SCall{name, args}
			}
		default:
			return x
		}
	}
}

func (p *sparser) primary() SExpr {
	t := p.next()
	switch t.kind {
	case "int":
		return &SInt{t.s}
	case "str":
		return &SStr{t.s}
	case "id":
		return &SIdent{t.s}
	case "op":
		if t.s == "(" {
			e := p.expr()
			p.expect(")")
			return e
		}
	}
	panic(fmt.Sprintf("unexpected token %q", t.s))
}

// substSpec substitutes identifiers (macro parameters) in a spec expression.
func substSpec(e SExpr, m map[string]SExpr) SExpr {
	switch x := e.(type) {
	case *SIdent:
		if r, ok := m[x.name]; ok {
			return r
		}
		return x
	case *SSel:
		return &SSel{substSpec(x.x, m), x.name}
	case *SIndex:
		return &SIndex{substSpec(x.x, m), substSpec(x.i, m)}
	case *SSlice:
		var lo, hi SExpr
		if x.lo != nil {
			lo = substSpec(x.lo, m)
		}
		if x.hi != nil {
			hi = substSpec(x.hi, m)
		}
		return &SSlice{substSpec(x.x, m), lo, hi}
	case *SCall:
		a := make([]SExpr, len(x.args))
		for i := range x.args {
			a[i] = substSpec(x.args[i], m)
		}
		return &SCall{x.fun, a}
	case *SUn:
		return &SUn{x.op, substSpec(x.x, m)}
	case *SBin:
		return &SBin{x.op, substSpec(x.x, m), substSpec(x.y, m)}
	case *SQuant:
		m2 := map[string]SExpr{}
		for k, v := range m {
			m2[k] = v
		}
		for _, v := range x.vars {
			delete(m2, v)
		}
		return &SQuant{x.forall, x.vars, x.sorts, substSpec(x.body, m2)}
	case *SOld:
		return &SOld{substSpec(x.x, m)}
	}
	return e
}
