package main

// Modifies-set inference: a field-sensitive, object-insensitive summary of what a function
// (or a loop body) may write, used to frame calls to callees and loop havocs.

import (
	"fmt"
	"go/token"
	"go/types"
	"sort"
	"strings"

	"golang.org/x/tools/go/ssa"
)

type ModSet struct {
	all        bool
	sorts      map[string]bool // whole heap sort havocked
	fields     map[int]bool    // leaf field ids
	elems      map[string]bool // element refs of this sort
	maps       bool
	freeVars   map[int]bool // writes through captured variable #k (closure summaries)
	callsParam map[int]bool // calls its func-typed parameter #k
	sync       bool         // channel operations / goroutines
	storeMut   bool         // mutates an abstract storage.Store (Put/Delete/...)
	why        string       // first reason for all=true
	nondet     bool         // result may differ between two calls with equal arguments and heap
	readsHeap  bool         // reads memory other than its own locals
	allocates  bool         // allocates objects (results of reference sort may be fresh)
	readsAll   bool
	readSorts  map[string]bool // heap sorts read (when !readsAll)
	storeAdd   bool            // only creates/rewrites store keys, never removes them (declared)
	readFields map[int]bool    // read footprint: leaf field ids
	readElems  map[string]bool // read footprint: element cells of a sort
	readWhole  map[string]bool // reads through pointers of unknown origin: whole sort
	// paramDeref: writes the scalar cell(s) *param #k points to (and nothing else through that pointer);
	// relative to the summarised function, mapped to the actual argument at each call site
	paramDeref map[int]map[string]bool
	// precise (encoder only): collect, instead of a class of cells, the very argument cells a callee
	// writes through its pointer parameters
	precise    bool
	cellWrites []cellWrite
}

// cellWrite: the callee stores a value of heap sort `sort` into the cell the call argument addr points to.
type cellWrite struct {
	addr ssa.Value
	sort string
}

func (m *ModSet) addParamDeref(k int, sort string) {
	if m.paramDeref == nil {
		m.paramDeref = map[int]map[string]bool{}
	}
	if m.paramDeref[k] == nil {
		m.paramDeref[k] = map[string]bool{}
	}
	m.paramDeref[k][sort] = true
}

// pointerParamIndex: v is (a copy of) a pointer-typed parameter of its function: its index, else -1.
func pointerParamIndex(v ssa.Value) int {
	par, ok := traceLocal(v).(*ssa.Parameter)
	if !ok || par.Parent() == nil {
		return -1
	}
	if _, isPtr := par.Type().Underlying().(*types.Pointer); !isPtr {
		return -1
	}
	for i, q := range par.Parent().Params {
		if q == par {
			return i
		}
	}
	return -1
}

// footprint describes what a deterministic function reads of one heap sort.
type footprint struct {
	sort   string
	whole  bool
	elems  bool
	fields []int
}

func (f footprint) key() string {
	if f.whole {
		return f.sort + ":*"
	}
	s := f.sort + ":"
	if f.elems {
		s += "e"
	}
	for _, id := range f.fields {
		s += fmt.Sprintf(",%d", id)
	}
	return s
}

// footprints: per heap sort the function reads.
func (m *ModSet) footprints() []footprint {
	var out []footprint
	if !m.readsHeap {
		return nil
	}
	for _, s := range heapSorts {
		if !(m.readsAll || m.readSorts[s]) {
			continue
		}
		fp := footprint{sort: s}
		if m.readsAll || m.readWhole[s] {
			fp.whole = true
		} else {
			fp.elems = m.readElems[s]
			for _, id := range sortedInts(m.readFields) {
				fs := "Int"
				if v := fieldByID[id]; v != nil {
					fs = sortOf(v.Type())
				} else {
					for g, gid := range globalIDs {
						if gid == id {
							fs = sortOf(g.Type().Underlying().(*types.Pointer).Elem())
						}
					}
				}
				if fs == s {
					fp.fields = append(fp.fields, id)
				}
			}
		}
		out = append(out, fp)
	}
	return out
}

func newModSet() *ModSet {
	return &ModSet{sorts: map[string]bool{}, fields: map[int]bool{}, elems: map[string]bool{}, freeVars: map[int]bool{}, callsParam: map[int]bool{}, readSorts: map[string]bool{},
		readFields: map[int]bool{}, readElems: map[string]bool{}, readWhole: map[string]bool{}}
}

// heapArgs: the heap sorts a deterministic function's result may depend on.
func (m *ModSet) heapArgs() []string {
	if !m.readsHeap {
		return nil
	}
	var out []string
	for _, s := range heapSorts {
		if m.readsAll || m.readSorts[s] {
			out = append(out, s)
		}
	}
	return out
}

func (m *ModSet) size() int {
	n := len(m.sorts) + len(m.fields) + len(m.elems) + len(m.freeVars) + len(m.callsParam)
	for _, ss := range m.paramDeref {
		n += len(ss)
	}
	for _, b := range []bool{m.all, m.maps, m.sync, m.storeMut, m.storeAdd} {
		if b {
			n++
		}
	}
	return n
}

// merge adds o into m; freeVars/callsParam are NOT merged (they are relative to o's function).
func (m *ModSet) merge(o *ModSet) {
	if o == nil {
		return
	}
	if o.all && !m.all {
		m.why = o.why
	}
	m.all = m.all || o.all
	m.nondet = m.nondet || o.nondet
	m.readsHeap = m.readsHeap || o.readsHeap
	m.readsAll = m.readsAll || o.readsAll
	for k := range o.readSorts {
		m.readSorts[k] = true
	}
	for k := range o.readFields {
		m.readFields[k] = true
	}
	for k := range o.readElems {
		m.readElems[k] = true
	}
	for k := range o.readWhole {
		m.readWhole[k] = true
	}
	m.allocates = m.allocates || o.allocates
	m.maps = m.maps || o.maps
	m.sync = m.sync || o.sync
	m.storeMut = m.storeMut || o.storeMut
	m.storeAdd = m.storeAdd || o.storeAdd
	for k := range o.sorts {
		m.sorts[k] = true
	}
	for k := range o.fields {
		m.fields[k] = true
	}
	for k := range o.elems {
		m.elems[k] = true
	}
}

func (m *ModSet) isEmptyHeap() bool {
	return !m.all && !m.maps && len(m.sorts) == 0 && len(m.fields) == 0 && len(m.elems) == 0
}

var fieldIDs = map[*types.Var]int{}
var fieldByID = []*types.Var{nil}
var globalIDs = map[*ssa.Global]int{}

func fieldID(v *types.Var) int {
	if id, ok := fieldIDs[v]; ok {
		return id
	}
	id := len(fieldByID)
	fieldIDs[v] = id
	fieldByID = append(fieldByID, v)
	return id
}

func globalID(g *ssa.Global) int {
	if id, ok := globalIDs[g]; ok {
		return id
	}
	id := len(fieldByID)
	globalIDs[g] = id
	fieldByID = append(fieldByID, nil)
	return id
}

func structOf(t types.Type) *types.Struct {
	if p, ok := t.Underlying().(*types.Pointer); ok {
		t = p.Elem()
	}
	s, _ := t.Underlying().(*types.Struct)
	return s
}

// typeLeaves enumerates what a store of a value of type t writes, relative to its address:
// leaf field ids (outermost constructor fld), element sorts (outermost constructor elem), or a
// single scalar sort when t itself is a scalar.
func typeLeaves(t types.Type, fields map[int]bool, elems map[string]bool) (scalar string) {
	switch u := t.Underlying().(type) {
	case *types.Struct:
		for i := 0; i < u.NumFields(); i++ {
			f := u.Field(i)
			if s := typeLeaves(f.Type(), fields, elems); s != "" {
				fields[fieldID(f)] = true
			}
		}
		return ""
	case *types.Array:
		if s := typeLeaves(u.Elem(), fields, elems); s != "" {
			elems[s] = true
		}
		return ""
	default:
		return sortOf(t)
	}
}

func stripVal(v ssa.Value) ssa.Value {
	for {
		switch x := v.(type) {
		case *ssa.ChangeType:
			v = x.X
		default:
			return v
		}
	}
}

// addStore classifies a write of a value of type t through address addr.
func (p *Program) addStore(ms *ModSet, addr ssa.Value, t types.Type) {
	addr = stripVal(addr)
	if localRoot(addr) != nil {
		return // memory of this function's own local / fresh object
	}
	if fv := freeVarRoot(addr); fv != nil {
		// a write into (a field/element of) a captured variable of the enclosing function
		for i, q := range fv.Parent().FreeVars {
			if q == fv {
				ms.freeVars[i] = true
			}
		}
	}
	fields, elems := map[int]bool{}, map[string]bool{}
	scalar := typeLeaves(t, fields, elems)
	for k := range fields {
		ms.fields[k] = true
	}
	for k := range elems {
		ms.elems[k] = true
	}
	if scalar == "" {
		return
	}
	switch a := addr.(type) {
	case *ssa.FieldAddr:
		if st := structOf(a.X.Type()); st != nil {
			ms.fields[fieldID(st.Field(a.Field))] = true
			return
		}
	case *ssa.IndexAddr:
		ms.elems[scalar] = true
		return
	case *ssa.Alloc:
		return // own local; handled by the encoder for loops
	case *ssa.FreeVar:
		for i, fv := range a.Parent().FreeVars {
			if fv == a {
				ms.freeVars[i] = true
			}
		}
		return
	case *ssa.Global:
		ms.fields[globalID(a)] = true
		return
	}
	if k := pointerParamIndex(addr); k >= 0 && isHeapScalar(scalar) {
		// *param = v: exactly the cell the caller handed in
		ms.addParamDeref(k, scalar)
		return
	}
	ms.sorts[scalar] = true
}

// addCellClass: a write of a scalar of heap sort `sort` through addr, classified without its Go type.
func (p *Program) addCellClass(ms *ModSet, addr ssa.Value, sort string) {
	addr = stripVal(addr)
	if localRoot(addr) != nil {
		return
	}
	if fv := freeVarRoot(addr); fv != nil {
		for i, q := range fv.Parent().FreeVars {
			if q == fv {
				ms.freeVars[i] = true
			}
		}
	}
	switch a := addr.(type) {
	case *ssa.FieldAddr:
		if st := structOf(a.X.Type()); st != nil {
			ms.fields[fieldID(st.Field(a.Field))] = true
			return
		}
	case *ssa.IndexAddr:
		ms.elems[sort] = true
		return
	case *ssa.Alloc:
		return
	case *ssa.FreeVar:
		return
	case *ssa.Global:
		ms.fields[globalID(a)] = true
		return
	}
	if k := pointerParamIndex(addr); k >= 0 {
		ms.addParamDeref(k, sort)
		return
	}
	ms.sorts[sort] = true
}

var purePkgs = []string{"fmt", "errors", "strings", "strconv", "path", "path/filepath", "go.uber.org/zap", "go.uber.org/zap/zapcore",
	"time", "context", "unicode", "unicode/utf8", "math", "hash/crc32", "os", "regexp", "github.com/segmentio/ksuid",
	"github.com/docker/go-units", "runtime", "log", "math/rand", "github.com/oneconcern/datamon/pkg/dlogger", "go.opencensus.io",
	"github.com/oneconcern/datamon/pkg/errors", "bytes.NewReader", "bytes.NewBuffer", "bytes.Equal", "bytes.Compare", "golang.org/x/sync/errgroup"}

func isPureExternal(fn *ssa.Function) bool {
	path := ""
	if fn.Pkg != nil {
		path = fn.Pkg.Pkg.Path()
	} else if o := fn.Object(); o != nil && o.Pkg() != nil {
		path = o.Pkg().Path()
	}
	full := path + "." + fn.Name()
	for _, pp := range purePkgs {
		if path == pp || strings.HasPrefix(path, pp+"/") || full == pp {
			return true
		}
	}
	return false
}

// implementations returns datamon methods that may be the target of an invoke on iface.m.
func (p *Program) implementations(iface *types.Interface, method string) []*ssa.Function {
	key := iface.String() + "#" + method
	if r, ok := p.implCache[key]; ok {
		return r
	}
	var out []*ssa.Function
	names := make([]string, 0, len(p.spkgs))
	for n := range p.spkgs {
		names = append(names, n)
	}
	sort.Strings(names)
	seen := map[*ssa.Function]bool{}
	for sp := range p.built {
		_ = sp
	}
	var pkgs []*ssa.Package
	for sp := range p.built {
		pkgs = append(pkgs, sp)
	}
	sort.Slice(pkgs, func(i, j int) bool { return pkgs[i].Pkg.Path() < pkgs[j].Pkg.Path() })
	for _, sp := range pkgs {
		mn := make([]string, 0, len(sp.Members))
		for n := range sp.Members {
			mn = append(mn, n)
		}
		sort.Strings(mn)
		for _, n := range mn {
			tm, ok := sp.Members[n].(*ssa.Type)
			if !ok {
				continue
			}
			for _, tt := range []types.Type{tm.Type(), types.NewPointer(tm.Type())} {
				if _, isI := tt.Underlying().(*types.Interface); isI {
					continue
				}
				if !types.Implements(tt, iface) {
					continue
				}
				sel := p.prog.MethodSets.MethodSet(tt).Lookup(tm.Object().Pkg(), method)
				if sel == nil {
					continue
				}
				fn := p.prog.MethodValue(sel)
				if fn != nil && !seen[fn] {
					seen[fn] = true
					out = append(out, fn)
				}
			}
		}
	}
	p.implCache[key] = out
	return out
}

// resolveFuncValue finds the function a func-typed value denotes, if statically evident.
func (p *Program) resolveFuncValue(v ssa.Value) (*ssa.Function, *ssa.MakeClosure) {
	v = traceLocal(v)
	switch x := v.(type) {
	case *ssa.Function:
		return x, nil
	case *ssa.MakeClosure:
		fn := x.Fn.(*ssa.Function)
		return fn, x
	case *ssa.UnOp:
		// load of a local variable that is assigned exactly one closure
		if x.Op == token.MUL {
			if a, ok := x.X.(*ssa.Alloc); ok {
				var only ssa.Value
				n := 0
				for _, r := range *a.Referrers() {
					if s, ok := r.(*ssa.Store); ok && s.Addr == a {
						n++
						only = s.Val
					}
				}
				if n == 1 {
					return p.resolveFuncValue(only)
				}
			}
		}
	}
	return nil, nil
}

// unwrapSynthetic maps bound-method wrappers and thunks to the declared method.
func (p *Program) unwrapSynthetic(fn *ssa.Function) *ssa.Function {
	if fn.Synthetic != "" && fn.Object() != nil {
		if f, ok := fn.Object().(*types.Func); ok {
			if t := p.prog.FuncValue(f); t != nil && t.Blocks != nil {
				return t
			}
		}
	}
	return fn
}

func (p *Program) modsOf(fn *ssa.Function) *ModSet {
	fn = p.unwrapSynthetic(fn)
	if m, ok := p.mods[fn]; ok {
		return m
	}
	return nil
}

// externalArgMods: default effect of a call to code outside datamon (or unknown code
// reached through an interface): memory directly reachable from pointer/slice arguments may be
// written; interface arguments may have their datamon methods called.
func (p *Program) externalArgMods(ms *ModSet, args []ssa.Value) {
	for _, a := range args {
		a = stripVal(a)
		switch t := a.Type().Underlying().(type) {
		case *types.Pointer:
			if _, isAlloc := a.(*ssa.Alloc); isAlloc {
				continue
			}
			p.addStore(ms, a, t.Elem())
		case *types.Slice:
			fields, elems := map[int]bool{}, map[string]bool{}
			if s := typeLeaves(t.Elem(), fields, elems); s != "" {
				ms.elems[s] = true
			}
			for k := range fields {
				ms.fields[k] = true
			}
			for k := range elems {
				ms.elems[k] = true
			}
		case *types.Interface:
			var src types.Type
			if mi, ok := a.(*ssa.MakeInterface); ok {
				src = mi.X.Type()
			}
			for i := 0; i < t.NumMethods(); i++ {
				m := t.Method(i)
				if src != nil {
					if sel := p.prog.MethodSets.MethodSet(src).Lookup(m.Pkg(), m.Name()); sel != nil {
						if fn := p.prog.MethodValue(sel); fn != nil {
							if s := p.modsOf(fn); s != nil {
								ms.merge(s)
							}
						}
					}
					continue
				}
				for _, fn := range p.implementations(t, m.Name()) {
					if s := p.modsOf(fn); s != nil {
						ms.merge(s)
					}
				}
			}
		case *types.Signature:
			if fn, mc := p.resolveFuncValue(a); fn != nil {
				p.mergeCallee(ms, fn, mc, nil)
			} else {
				ms.setAll(fmt.Sprintf("site1"))
			}
		}
	}
}

// mergeCallee merges the summary of calling fn (possibly a closure mc) with arguments args.
func (p *Program) mergeCallee(ms *ModSet, fn *ssa.Function, mc *ssa.MakeClosure, args []ssa.Value) {
	fn = p.unwrapSynthetic(fn)
	if fn.Blocks == nil || !p.isDatamon(fn) {
		if !isDetExternal(fn) {
			ms.nondet = true
		}
		if argsReadHeap(args) {
			ms.readsHeap = true
			ms.readsAll = true
		}
		if isPureExternal(fn) {
			return
		}
		p.externalArgMods(ms, args)
		return
	}
	s := p.mods[fn]
	if s == nil {
		return // not yet computed (fixpoint will revisit)
	}
	ms.merge(s)
	for _, k := range sortedInts2(s.paramDeref) {
		var av ssa.Value
		if k < len(args) {
			av = args[k]
		}
		for _, so := range sortedKeys(s.paramDeref[k]) {
			switch {
			case av == nil:
				ms.sorts[so] = true
			case ms.precise && localRoot(av) == nil && freeVarRoot(av) == nil && pointerParamIndex(av) < 0:
				ms.cellWrites = append(ms.cellWrites, cellWrite{addr: av, sort: so})
			default:
				p.addCellClass(ms, av, so)
			}
		}
	}
	for k := range s.freeVars {
		if mc != nil && k < len(mc.Bindings) {
			b := mc.Bindings[k]
			if pt, ok := b.Type().Underlying().(*types.Pointer); ok {
				p.addStore(ms, b, pt.Elem())
			}
		} else {
			ms.setAll(fmt.Sprintf("site2"))
		}
	}
	for k := range s.callsParam {
		// parameter index k counts the receiver as #0 for methods
		var av ssa.Value
		if k < len(args) {
			av = args[k]
		}
		if av == nil {
			ms.setAll(fmt.Sprintf("site3"))
			continue
		}
		if f2, mc2 := p.resolveFuncValue(av); f2 != nil {
			p.mergeCallee(ms, f2, mc2, nil)
		} else if par, ok := traceLocal(av).(*ssa.Parameter); ok {
			for i, q := range par.Parent().Params {
				if q == par {
					ms.callsParam[i] = true
				}
			}
		} else {
			ms.setAll(fmt.Sprintf("site4"))
		}
	}
}

func (p *Program) callMods(ms *ModSet, c *ssa.CallCommon) {
	// handing the address of a captured variable to any callee counts as writing it
	for _, a := range c.Args {
		if fv := freeVarRoot(a); fv != nil {
			for i, q := range fv.Parent().FreeVars {
				if q == fv {
					ms.freeVars[i] = true
				}
			}
		}
	}
	p.callMods1(ms, c)
}

// freeVarRoot follows address computations back to a captured variable, if any.
func freeVarRoot(v ssa.Value) *ssa.FreeVar {
	for i := 0; i < 16; i++ {
		switch x := stripVal(v).(type) {
		case *ssa.FreeVar:
			return x
		case *ssa.FieldAddr:
			v = x.X
		case *ssa.IndexAddr:
			if _, isPtr := x.X.Type().Underlying().(*types.Pointer); !isPtr {
				return nil
			}
			v = x.X
		case *ssa.Slice:
			if _, isPtr := x.X.Type().Underlying().(*types.Pointer); !isPtr {
				return nil
			}
			v = x.X
		default:
			return nil
		}
	}
	return nil
}

func (p *Program) callMods1(ms *ModSet, c *ssa.CallCommon) {
	if c.IsInvoke() {
		it, _ := c.Value.Type().Underlying().(*types.Interface)
		if it == nil {
			ms.setAll(fmt.Sprintf("site5"))
			return
		}
		key := ifaceKey(c.Value.Type(), c.Method.Name())
		if ext, ok := p.externs[key]; ok {
			ms.nondet = true
			ms.readsHeap = true
			ms.readsAll = true
			p.externMods(ms, ext, c)
			return
		}
		impls := p.implementations(it, c.Method.Name())
		for _, fn := range impls {
			if s := p.modsOf(fn); s != nil {
				ms.merge(s)
				if len(s.freeVars) > 0 || len(s.callsParam) > 0 {
					ms.setAll(fmt.Sprintf("site6"))
				}
			}
		}
		if !isDatamonType(c.Value.Type()) || len(impls) == 0 {
			// may be implemented outside datamon
			ms.nondet = true
			ms.readsHeap = true
			ms.readsAll = true
			p.externalArgMods(ms, c.Args)
		}
		return
	}
	switch v := stripVal(c.Value).(type) {
	case *ssa.Builtin:
		switch v.Name() {
		case "append":
			if st, ok := c.Args[0].Type().Underlying().(*types.Slice); ok {
				fields, elems := map[int]bool{}, map[string]bool{}
				if s := typeLeaves(st.Elem(), fields, elems); s != "" {
					ms.elems[s] = true
				}
				for k := range fields {
					ms.fields[k] = true
				}
				for k := range elems {
					ms.elems[k] = true
				}
			}
		case "copy":
			if st, ok := c.Args[0].Type().Underlying().(*types.Slice); ok {
				fields, elems := map[int]bool{}, map[string]bool{}
				if s := typeLeaves(st.Elem(), fields, elems); s != "" {
					ms.elems[s] = true
				}
				for k := range fields {
					ms.fields[k] = true
				}
				for k := range elems {
					ms.elems[k] = true
				}
			}
		case "delete", "clear":
			ms.maps = true
		case "close":
			ms.sync = true
		}
		return
	}
	if fn, mc := p.resolveFuncValue(c.Value); fn != nil {
		key := externKeyOf(fn)
		if ext, ok := p.externs[key]; ok {
			p.externMods(ms, ext, c)
			return
		}
		p.mergeCallee(ms, fn, mc, c.Args)
		return
	}
	if par, ok := traceLocal(c.Value).(*ssa.Parameter); ok {
		for i, q := range par.Parent().Params {
			if q == par {
				ms.callsParam[i] = true
				return
			}
		}
	}
	// functional options (type XxxOption func(*T)): assumed to write only through their arguments
	if n, ok := c.Value.Type().(*types.Named); ok && strings.HasSuffix(n.Obj().Name(), "Option") {
		ms.nondet = true
		ms.readsHeap = true
		ms.readsAll = true
		p.externalArgMods(ms, c.Args)
		return
	}
	// a function value returned by telemetry code (metrics.Usage.UsedAll(...)(err))
	if call, ok := traceLocal(c.Value).(*ssa.Call); ok {
		if callee := call.Call.StaticCallee(); callee != nil && isTelemetry(callee) {
			ms.nondet = true
			return
		}
	}
	ms.setAll("call of unknown function value " + c.Value.Name())
}

// externMods: effect of a callee that has an assumed (extern) contract.
func (p *Program) externMods(ms *ModSet, ext *FuncContract, c *ssa.CallCommon) {
	if ext.pure {
		return
	}
	for _, m := range ext.modifies {
		switch {
		case m == "store":
			ms.storeMut = true
		case m == "args":
			p.externalArgMods(ms, c.Args)
		case m == "sync":
			ms.sync = true
		case m == "all":
			ms.setAll(fmt.Sprintf("site8"))
		}
	}
	if !ext.hasMods {
		p.externalArgMods(ms, c.Args)
	}
}

func isDatamonType(t types.Type) bool {
	if n, ok := t.(*types.Named); ok && n.Obj().Pkg() != nil {
		return strings.HasPrefix(n.Obj().Pkg().Path(), datamonPrefix)
	}
	return false
}

func ifaceKey(t types.Type, method string) string {
	if n, ok := t.(*types.Named); ok {
		pk := ""
		if n.Obj().Pkg() != nil {
			pk = n.Obj().Pkg().Name() + "."
		}
		return pk + n.Obj().Name() + "." + method
	}
	return "?." + method
}

func externKeyOf(fn *ssa.Function) string {
	if fn.Pkg != nil {
		return fn.Pkg.Pkg.Name() + "." + fn.RelString(fn.Pkg.Pkg)
	}
	if o := fn.Object(); o != nil && o.Pkg() != nil {
		if f, ok := o.(*types.Func); ok {
			if sig := f.Type().(*types.Signature); sig.Recv() != nil {
				rt := sig.Recv().Type()
				star := ""
				if pt, ok := rt.(*types.Pointer); ok {
					rt = pt.Elem()
					star = "*"
				}
				if n, ok := rt.(*types.Named); ok {
					return o.Pkg().Name() + ".(" + star + n.Obj().Name() + ")." + f.Name()
				}
			}
		}
		return o.Pkg().Name() + "." + o.Name()
	}
	return fn.String()
}

func (p *Program) instrMods(ms *ModSet, ins ssa.Instruction) {
	switch x := ins.(type) {
	case *ssa.Store:
		p.addStore(ms, x.Addr, x.Val.Type())
	case *ssa.MapUpdate:
		ms.maps = true
	case *ssa.Send, *ssa.Select:
		ms.sync = true
		ms.nondet = true
	case *ssa.UnOp:
		if x.Op == token.ARROW {
			ms.sync = true
			ms.nondet = true
		}
		if x.Op == token.MUL && localRoot(x.X) == nil {
			ms.readsHeap = true
			fields, elems := map[int]bool{}, map[string]bool{}
			if s := typeLeaves(x.Type(), fields, elems); s != "" {
				ms.readSorts[s] = true
			}
			for id := range fields {
				if v := fieldByID[id]; v != nil {
					ms.readSorts[sortOf(v.Type())] = true
				}
			}
			for s := range elems {
				ms.readSorts[s] = true
			}
			// footprint: which cells of which sort are read
			for id := range fields {
				ms.readFields[id] = true
			}
			for s := range elems {
				ms.readElems[s] = true
			}
			if s := sortOf(x.Type()); isHeapScalar(s) {
				switch a := stripVal(x.X).(type) {
				case *ssa.FieldAddr:
					if st := structOf(a.X.Type()); st != nil {
						ms.readFields[fieldID(st.Field(a.Field))] = true
					} else {
						ms.readWhole[s] = true
					}
				case *ssa.IndexAddr:
					ms.readElems[s] = true
				case *ssa.Global:
					ms.readFields[globalID(a)] = true
				default:
					ms.readWhole[s] = true
				}
			}
		}
	case *ssa.Alloc:
		if x.Heap {
			ms.allocates = true
		}
	case *ssa.MakeSlice, *ssa.MakeMap, *ssa.MakeChan, *ssa.MakeClosure:
		ms.allocates = true
	case *ssa.Lookup:
		if _, isMap := x.X.Type().Underlying().(*types.Map); isMap {
			ms.readsHeap = true
			ms.readsAll = true
			ms.nondet = true // map contents are not part of the pure-function arguments
		}
	case *ssa.Next:
		if !x.IsString {
			ms.nondet = true
			ms.readsHeap = true
		}
	case *ssa.Call:
		p.callMods(ms, &x.Call)
	case *ssa.Defer:
		p.callMods(ms, &x.Call)
	case *ssa.Go:
		ms.sync = true
		ms.nondet = true
		p.callMods(ms, &x.Call)
	}
}

var detPkgs = []string{"fmt", "errors", "strings", "strconv", "path", "path/filepath", "unicode", "unicode/utf8", "bytes", "math",
	"sort", "regexp", "hash/crc32", "encoding/hex", "encoding/binary", "go.uber.org/zap", "go.uber.org/zap/zapcore",
	"github.com/oneconcern/datamon/pkg/dlogger", "github.com/oneconcern/datamon/pkg/errors"}

func isDetExternal(fn *ssa.Function) bool {
	path := ""
	if fn.Pkg != nil {
		path = fn.Pkg.Pkg.Path()
	} else if o := fn.Object(); o != nil && o.Pkg() != nil {
		path = o.Pkg().Path()
	}
	for _, pp := range detPkgs {
		if path == pp {
			return true
		}
	}
	return false
}

func argsReadHeap(args []ssa.Value) bool {
	for _, a := range args {
		switch sortOf(a.Type()) {
		case "Ref", "Slice":
			if localRoot(a) != nil {
				continue // e.g. the varargs array of fmt.Sprint
			}
			return true
		}
	}
	return false
}

// valueLike: results of this type carry no object identity.
func valueLike(t types.Type) bool {
	switch u := t.Underlying().(type) {
	case *types.Basic:
		return u.Kind() != types.UnsafePointer
	case *types.Struct:
		for i := 0; i < u.NumFields(); i++ {
			if !valueLike(u.Field(i).Type()) {
				return false
			}
		}
		return true
	case *types.Array:
		return valueLike(u.Elem())
	case *types.Tuple:
		for i := 0; i < u.Len(); i++ {
			if !valueLike(u.At(i).Type()) {
				return false
			}
		}
		return true
	case *types.Interface:
		// error results of deterministic functions: same inputs, same (nil-ness and) value
		return true
	}
	return false
}

// isDet: calling fn twice with equal arguments in equal heaps gives equal results.
func (p *Program) isDet(fn *ssa.Function) bool {
	fn = p.unwrapSynthetic(fn)
	ms := p.mods[fn]
	if ms == nil || fn.Blocks == nil {
		return false
	}
	if ms.nondet || ms.all || ms.sync || ms.storeMut || ms.maps || len(ms.sorts)+len(ms.fields)+len(ms.elems)+len(ms.freeVars)+len(ms.callsParam) > 0 {
		return false
	}
	if len(fn.FreeVars) > 0 {
		return false
	}
	if ms.allocates && !valueLike(fn.Signature.Results()) {
		return false
	}
	return true
}

// Telemetry packages of datamon: assumed not to write any state the contracts talk about.
var telemetryPkgs = []string{datamonPrefix + "/pkg/metrics", datamonPrefix + "/pkg/dlogger"}

func isTelemetry(fn *ssa.Function) bool {
	path := ""
	f := fn
	for f.Pkg == nil && f.Parent() != nil {
		f = f.Parent()
	}
	if f.Pkg != nil {
		path = f.Pkg.Pkg.Path()
	} else if o := fn.Object(); o != nil && o.Pkg() != nil {
		path = o.Pkg().Path()
	}
	for _, t := range telemetryPkgs {
		if path == t || strings.HasPrefix(path, t+"/") {
			return true
		}
	}
	return false
}

// computeMods runs the summary fixpoint over all built datamon functions.
func (p *Program) computeMods() {
	var fns []*ssa.Function
	for _, fn := range p.funcs {
		fns = append(fns, fn)
	}
	sort.Slice(fns, func(i, j int) bool { return p.fnName[fns[i]] < p.fnName[fns[j]] })
	for _, fn := range fns {
		p.mods[fn] = newModSet()
	}
	for iter := 0; iter < 12; iter++ {
		changed := false
		for _, fn := range fns {
			ms := newModSet()
			if c := p.contracts[p.fnName[fn]]; c != nil && c.hasMods {
				p.mods[fn] = p.declaredMods(c, fn)
				continue
			}
			pureFields := p.pureFieldCalls(fn)
			for _, b := range fn.Blocks {
				for _, ins := range b.Instrs {
					if len(pureFields) > 0 && isPureFieldCall(ins, pureFields) {
						continue
					}
					p.instrMods(ms, ins)
				}
			}
			if isTelemetry(fn) {
				// keep the read/determinism flags, drop the (assumed irrelevant) writes
				ms.all, ms.maps, ms.sync, ms.storeMut = false, false, false, false
				ms.sorts, ms.fields, ms.elems = map[string]bool{}, map[int]bool{}, map[string]bool{}
				ms.freeVars, ms.callsParam = map[int]bool{}, map[int]bool{}
				ms.nondet = true
			}
			if ms.size() != p.mods[fn].size() || ms.all != p.mods[fn].all || ms.nondet != p.mods[fn].nondet || ms.readsHeap != p.mods[fn].readsHeap || ms.allocates != p.mods[fn].allocates ||
				ms.readsAll != p.mods[fn].readsAll || len(ms.readSorts) != len(p.mods[fn].readSorts) ||
				len(ms.readFields) != len(p.mods[fn].readFields) || len(ms.readElems) != len(p.mods[fn].readElems) || len(ms.readWhole) != len(p.mods[fn].readWhole) {
				changed = true
			}
			p.mods[fn] = ms
		}
		if !changed {
			break
		}
	}
}

// declaredMods translates an explicit (assumed) modifies clause of a datamon function.
// Items: store | sync | all | nothing | field:<Type>.<field> | elems:<sort> | maps
func (p *Program) declaredMods(c *FuncContract, fn *ssa.Function) *ModSet {
	ms := newModSet()
	for _, m := range c.modifies {
		switch {
		case m == "store":
			ms.storeMut = true
		case m == "store-additive":
			ms.storeAdd = true
		case m == "sync":
			ms.sync = true
		case m == "all":
			ms.setAll(fmt.Sprintf("site9"))
		case m == "maps":
			ms.maps = true
		case strings.HasPrefix(m, "elems:"):
			ms.elems[specSort(strings.TrimPrefix(m, "elems:"))] = true
		case strings.HasPrefix(m, "field:"):
			parts := strings.Split(strings.TrimPrefix(m, "field:"), ".")
			f := fn
			for f.Pkg == nil && f.Parent() != nil {
				f = f.Parent()
			}
			ok := false
			var scope *types.Scope
			if f.Pkg != nil {
				scope = f.Pkg.Pkg.Scope()
			}
			if len(parts) == 3 { // pkg.Type.field
				if sp, found := p.spkgs[parts[0]]; found {
					scope = sp.Pkg.Scope()
				}
				parts = parts[1:]
			}
			if len(parts) == 2 && scope != nil {
				if obj := scope.Lookup(parts[0]); obj != nil {
					if st := structOf(obj.Type()); st != nil {
						if path := findFieldPath(st, parts[1]); len(path) == 1 {
							fields, elems := map[int]bool{}, map[string]bool{}
							fv := st.Field(path[0])
							if s := typeLeaves(fv.Type(), fields, elems); s != "" {
								ms.fields[fieldID(fv)] = true
							}
							for k := range fields {
								ms.fields[k] = true
							}
							for k := range elems {
								ms.elems[k] = true
							}
							ok = true
						}
					}
				}
			}
			if !ok {
				panic("bad modifies item " + m + " in contract of " + c.name)
			}
		default:
			panic("bad modifies item " + m + " in contract of " + c.name)
		}
	}
	return ms
}

func (m *ModSet) setAll(why string) {
	if !m.all {
		m.all = true
		m.why = why
	}
	m.nondet = true
	m.readsHeap = true
	m.readsAll = true
}

func (m *ModSet) String() string {
	var parts []string
	if m.all {
		parts = append(parts, "ALL("+m.why+")")
	}
	for _, k := range sortedKeys(m.sorts) {
		parts = append(parts, "sort:"+k)
	}
	for _, id := range sortedInts(m.fields) {
		n := fmt.Sprint(id)
		if v := fieldByID[id]; v != nil {
			n = v.Name()
		}
		parts = append(parts, "f:"+n)
	}
	for _, k := range sortedKeys(m.elems) {
		parts = append(parts, "elems:"+k)
	}
	for _, k := range sortedInts2(m.paramDeref) {
		parts = append(parts, fmt.Sprintf("*param%d:%s", k, strings.Join(sortedKeys(m.paramDeref[k]), "+")))
	}
	if m.maps {
		parts = append(parts, "maps")
	}
	if m.sync {
		parts = append(parts, "sync")
	}
	if m.nondet {
		parts = append(parts, "nondet")
	}
	if m.readsHeap {
		parts = append(parts, "readsHeap")
	}
	if m.allocates {
		parts = append(parts, "allocates")
	}
	if m.storeMut {
		parts = append(parts, "store")
	}
	for _, k := range sortedInts(m.freeVars) {
		parts = append(parts, fmt.Sprintf("fv%d", k))
	}
	for _, k := range sortedInts(m.callsParam) {
		parts = append(parts, fmt.Sprintf("callsParam%d", k))
	}
	return strings.Join(parts, " ")
}

// localRoot follows address computations back to an Alloc of the same function, if any.
func localRoot(v ssa.Value) *ssa.Alloc {
	for i := 0; i < 16; i++ {
		switch x := stripVal(v).(type) {
		case *ssa.Alloc:
			return x
		case *ssa.FieldAddr:
			v = x.X
		case *ssa.IndexAddr:
			if _, isPtr := x.X.Type().Underlying().(*types.Pointer); !isPtr {
				return nil
			}
			v = x.X
		case *ssa.Slice:
			if _, isPtr := x.X.Type().Underlying().(*types.Pointer); !isPtr {
				return nil
			}
			v = x.X
		default:
			return nil
		}
	}
	return nil
}

// traceLocal looks through a load of a local variable that is assigned exactly once
// (naive-form SSA copies every parameter into such a variable).
func traceLocal(v ssa.Value) ssa.Value {
	for i := 0; i < 8; i++ {
		v = stripVal(v)
		u, ok := v.(*ssa.UnOp)
		if !ok || u.Op != token.MUL {
			return v
		}
		a, ok := u.X.(*ssa.Alloc)
		if !ok {
			return v
		}
		var only ssa.Value
		n := 0
		for _, r := range *a.Referrers() {
			if s, ok := r.(*ssa.Store); ok && s.Addr == a {
				n++
				only = s.Val
			}
		}
		if n != 1 {
			return v
		}
		v = only
	}
	return v
}

func sortedInts2(m map[int]map[string]bool) []int {
	var ks []int
	for k := range m {
		ks = append(ks, k)
	}
	sort.Ints(ks)
	return ks
}

// pureFieldCalls: the func-valued fields x.f whose calls the function's contract declares effect free
// ("call x.f#k pure", a listed assumption). The summary of the function honours it for every call of that
// field, so that callers (and goroutines started with the function) see the same effect as its own proof.
func (p *Program) pureFieldCalls(fn *ssa.Function) map[string]bool {
	c := p.contracts[p.fnName[fn]]
	if c == nil {
		return nil
	}
	var out map[string]bool
	for site, ccs := range c.calls {
		for _, cc := range ccs {
			if cc.kind != "pure" {
				continue
			}
			name := site
			if i := strings.Index(name, "#"); i >= 0 {
				name = name[:i]
			}
			if i := strings.LastIndex(name, "."); i >= 0 {
				if out == nil {
					out = map[string]bool{}
				}
				out[name[i+1:]] = true
			}
		}
	}
	return out
}

func isPureFieldCall(ins ssa.Instruction, fields map[string]bool) bool {
	var cc *ssa.CallCommon
	switch x := ins.(type) {
	case *ssa.Call:
		cc = &x.Call
	case *ssa.Defer:
		cc = &x.Call
	case *ssa.Go:
		cc = &x.Call
	}
	if cc == nil || cc.IsInvoke() {
		return false
	}
	u, ok := traceLocal(cc.Value).(*ssa.UnOp)
	if !ok || u.Op != token.MUL {
		return false
	}
	fa, ok := u.X.(*ssa.FieldAddr)
	if !ok {
		return false
	}
	st := structOf(fa.X.Type())
	return st != nil && fields[st.Field(fa.Field).Name()]
}

// immutableGlobal: a package-level variable that no function of the loaded program assigns or takes the
// address of, except its own package initialiser. Such a variable keeps its value across calls.
func (p *Program) immutableGlobal(g *ssa.Global) bool {
	if p.mutableGlobals == nil {
		p.mutableGlobals = map[*ssa.Global]bool{}
		var scan func(fn *ssa.Function)
		seen := map[*ssa.Function]bool{}
		scan = func(fn *ssa.Function) {
			if fn == nil || seen[fn] {
				return
			}
			seen[fn] = true
			isInit := fn.Name() == "init" || strings.HasPrefix(fn.Name(), "init#")
			for _, b := range fn.Blocks {
				for _, ins := range b.Instrs {
					for _, op := range ins.Operands(nil) {
						if op == nil || *op == nil {
							continue
						}
						gg, ok := (*op).(*ssa.Global)
						if !ok {
							continue
						}
						switch x := ins.(type) {
						case *ssa.UnOp:
							if x.Op == token.MUL && x.X == gg {
								continue // a read
							}
						case *ssa.Store:
							if x.Addr == gg && x.Val != gg && isInit && fn.Pkg != nil && fn.Pkg == gg.Pkg {
								continue // initialisation
							}
						}
						p.mutableGlobals[gg] = true
					}
				}
			}
			for _, af := range fn.AnonFuncs {
				scan(af)
			}
		}
		for sp := range p.built {
			for _, m := range sp.Members {
				switch x := m.(type) {
				case *ssa.Function:
					scan(x)
				case *ssa.Type:
					for _, t := range []types.Type{x.Type(), types.NewPointer(x.Type())} {
						ms := p.prog.MethodSets.MethodSet(t)
						for i := 0; i < ms.Len(); i++ {
							scan(p.prog.MethodValue(ms.At(i)))
						}
					}
				}
			}
		}
	}
	if g.Pkg == nil || !p.built[g.Pkg] {
		return false // a package whose bodies were not built: unknown writers
	}
	return !p.mutableGlobals[g]
}
