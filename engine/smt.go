package main

import (
	"fmt"
	"go/types"
	"math/big"
	"regexp"
	"sort"
	"strings"
)

const prelude = `(set-option :produce-models true)
(set-logic ALL)
(declare-datatypes ((Ref 0)) (((null) (alloc (aid Int)) (fld (fbase Ref) (fidx Int)) (elem (ebase Ref) (eidx Int)))))
(declare-datatypes ((Slice 0)) (((mkslice (sarr Ref) (soff Int) (slen Int) (scap Int)))))
(declare-sort Str 0)
(declare-fun strlen (Str) Int)
(declare-fun strcat (Str Str) Str)
(declare-fun strat (Str Int) Int)
(declare-fun substr (Str Int Int) Str)
(declare-fun strlt (Str Str) Bool)
(declare-sort Iface 0)
(declare-const inil Iface)
(declare-fun itype (Iface) Int)
(declare-fun root (Ref) Int)
(assert (forall ((b Ref) (k Int)) (! (= (root (fld b k)) (root b)) :pattern ((root (fld b k))))))
(assert (forall ((b Ref) (i Int)) (! (= (root (elem b i)) (root b)) :pattern ((root (elem b i))))))
(declare-fun bitand (Int Int) Int)
(declare-fun bitor (Int Int) Int)
(declare-fun bitxor (Int Int) Int)
(declare-fun shl (Int Int) Int)
(declare-fun shr (Int Int) Int)
(define-fun wfslice ((s Slice)) Bool (and (>= (soff s) 0) (>= (slen s) 0) (<= (slen s) (scap s)) (<= (scap s) 9223372036854775807) (<= (soff s) 9223372036854775807) (=> (= (sarr s) null) (= (scap s) 0))))
(define-fun nilslice () Slice (mkslice null 0 0 0))
(define-fun godiv ((a Int) (b Int)) Int (ite (>= a 0) (ite (> b 0) (div a b) (- (div a (- b)))) (ite (> b 0) (- (div (- a) b)) (div (- a) (- b)))))
(define-fun gomod ((a Int) (b Int)) Int (- a (* b (godiv a b))))
(define-fun imin ((a Int) (b Int)) Int (ite (<= a b) a b))
(define-fun imax ((a Int) (b Int)) Int (ite (>= a b) a b))
`

func num(n int64) string {
	if n < 0 {
		return fmt.Sprintf("(- %d)", -n)
	}
	return fmt.Sprintf("%d", n)
}

func numBig(b *big.Int) string {
	if b.Sign() < 0 {
		return "(- " + new(big.Int).Neg(b).String() + ")"
	}
	return b.String()
}

func pow2(n uint) *big.Int { return new(big.Int).Lsh(big.NewInt(1), n) }

// intRange returns the inclusive range of a basic integer kind; ok=false for non-integers.
func intRange(t types.Type) (lo, hi *big.Int, unsigned bool, ok bool) {
	b, isB := t.Underlying().(*types.Basic)
	if !isB {
		return nil, nil, false, false
	}
	sr := func(bits uint) (*big.Int, *big.Int, bool, bool) {
		h := new(big.Int).Sub(pow2(bits-1), big.NewInt(1))
		return new(big.Int).Neg(pow2(bits - 1)), h, false, true
	}
	ur := func(bits uint) (*big.Int, *big.Int, bool, bool) {
		return big.NewInt(0), new(big.Int).Sub(pow2(bits), big.NewInt(1)), true, true
	}
	switch b.Kind() {
	case types.Int, types.Int64:
		return sr(64)
	case types.Int32:
		return sr(32)
	case types.Int16:
		return sr(16)
	case types.Int8:
		return sr(8)
	case types.Uint, types.Uint64, types.Uintptr:
		return ur(64)
	case types.Uint32:
		return ur(32)
	case types.Uint16:
		return ur(16)
	case types.Uint8:
		return ur(8)
	}
	return nil, nil, false, false
}

func isInteger(t types.Type) bool {
	b, ok := t.Underlying().(*types.Basic)
	return ok && b.Info()&types.IsInteger != 0
}

func isUnsigned(t types.Type) bool {
	b, ok := t.Underlying().(*types.Basic)
	return ok && b.Info()&types.IsUnsigned != 0
}

func isString(t types.Type) bool {
	b, ok := t.Underlying().(*types.Basic)
	return ok && b.Info()&types.IsString != 0
}

func isFloat(t types.Type) bool {
	b, ok := t.Underlying().(*types.Basic)
	return ok && b.Info()&(types.IsFloat|types.IsComplex) != 0
}

// ---- sorts -------------------------------------------------------------------------------

type structInfo struct {
	sort   string
	st     *types.Struct
	decl   string
	fields []string // accessor names
}

var (
	structSorts = map[string]*structInfo{}
	structOrder []*structInfo
	reIdent     = regexp.MustCompile(`[^A-Za-z0-9_]`)
)

func sanitize(s string) string { return reIdent.ReplaceAllString(s, "_") }

func structSort(t types.Type) *structInfo {
	key := t.String()
	if _, isNamed := t.(*types.Named); !isNamed {
		key = t.Underlying().String()
	}
	if si, ok := structSorts[key]; ok {
		return si
	}
	st := t.Underlying().(*types.Struct)
	name := "anon"
	if n, ok := t.(*types.Named); ok {
		name = n.Obj().Name()
	}
	si := &structInfo{st: st}
	structSorts[key] = si
	// declare field sorts first (dependencies)
	fsorts := make([]string, st.NumFields())
	for i := 0; i < st.NumFields(); i++ {
		fsorts[i] = sortOf(st.Field(i).Type())
	}
	si.sort = fmt.Sprintf("S%d_%s", len(structOrder)+1, sanitize(name))
	var sb strings.Builder
	fmt.Fprintf(&sb, "(declare-datatypes ((%s 0)) (((mk_%s", si.sort, si.sort)
	for i := 0; i < st.NumFields(); i++ {
		acc := fmt.Sprintf("%s_%s", si.sort, sanitize(st.Field(i).Name()))
		if st.Field(i).Name() == "_" {
			acc = fmt.Sprintf("%s_blank%d", si.sort, i)
		}
		si.fields = append(si.fields, acc)
		fmt.Fprintf(&sb, " (%s %s)", acc, fsorts[i])
	}
	sb.WriteString("))))")
	si.decl = sb.String()
	structOrder = append(structOrder, si)
	return si
}

func sortOf(t types.Type) string {
	switch u := t.Underlying().(type) {
	case *types.Basic:
		switch {
		case u.Info()&types.IsBoolean != 0:
			return "Bool"
		case u.Info()&types.IsInteger != 0:
			return "Int"
		case u.Info()&types.IsString != 0:
			return "Str"
		case u.Info()&(types.IsFloat|types.IsComplex) != 0:
			return "Real"
		case u.Kind() == types.UnsafePointer, u.Kind() == types.UntypedNil:
			return "Ref"
		}
		return "Int"
	case *types.Pointer, *types.Map, *types.Chan, *types.Signature:
		return "Ref"
	case *types.Slice:
		return "Slice"
	case *types.Interface:
		return "Iface"
	case *types.Struct:
		return structSort(t).sort
	case *types.Array:
		return "(Array Int " + sortOf(u.Elem()) + ")"
	case *types.TypeParam:
		return "Iface"
	case *types.Tuple:
		return "Tuple"
	}
	return "Int"
}

func sortKey(sort string) string { return sanitize(sort) }

// heapSorts: the scalar sorts that can live in heap cells.
var heapSorts = []string{"Int", "Bool", "Ref", "Slice", "Str", "Iface", "Real"}

func isHeapScalar(sort string) bool {
	for _, s := range heapSorts {
		if s == sort {
			return true
		}
	}
	return false
}

func and(ts ...string) string {
	var xs []string
	for _, t := range ts {
		if t == "" || t == "true" {
			continue
		}
		if t == "false" {
			return "false"
		}
		xs = append(xs, t)
	}
	switch len(xs) {
	case 0:
		return "true"
	case 1:
		return xs[0]
	}
	return "(and " + strings.Join(xs, " ") + ")"
}

func or(ts ...string) string {
	var xs []string
	for _, t := range ts {
		if t == "" || t == "false" {
			continue
		}
		if t == "true" {
			return "true"
		}
		xs = append(xs, t)
	}
	switch len(xs) {
	case 0:
		return "false"
	case 1:
		return xs[0]
	}
	return "(or " + strings.Join(xs, " ") + ")"
}

func not(t string) string {
	switch t {
	case "true":
		return "false"
	case "false":
		return "true"
	}
	if strings.HasPrefix(t, "(not ") && balanced(t[5:len(t)-1]) {
		return t[5 : len(t)-1]
	}
	return "(not " + t + ")"
}

func balanced(s string) bool {
	d := 0
	for _, c := range s {
		switch c {
		case '(':
			d++
		case ')':
			d--
			if d < 0 {
				return false
			}
		}
	}
	return d == 0
}

func implies(a, b string) string {
	if a == "true" {
		return b
	}
	if b == "true" || a == "false" {
		return "true"
	}
	return "(=> " + a + " " + b + ")"
}

func eq(a, b string) string {
	if a == b {
		return "true"
	}
	return "(= " + a + " " + b + ")"
}

func sortedKeys[V any](m map[string]V) []string {
	ks := make([]string, 0, len(m))
	for k := range m {
		ks = append(ks, k)
	}
	sort.Strings(ks)
	return ks
}

func sortedInts(m map[int]bool) []int {
	ks := make([]int, 0, len(m))
	for k := range m {
		ks = append(ks, k)
	}
	sort.Ints(ks)
	return ks
}
