package main

// Property-level driver: obligations.lock policy, known findings, evidence, exit codes.

import (
	"encoding/json"
	"flag"
	"fmt"
	"os"
	"sync"
	"os/exec"
	"path/filepath"
	"sort"
	"strconv"
	"strings"
	"time"
)

type PropConfig struct {
	ID          string   `json:"id"`
	Packages    []string `json:"packages"`
	Functions   []string `json:"functions"`
	Lemmas      []string `json:"lemmas,omitempty"` // smt2 lemma files (relative to /verif/theory)
	RegexPkgs   []string `json:"regex_pkgs,omitempty"`
	Assumptions []string `json:"assumptions"`
	NotDecided  []string `json:"not_decided"`
	Level       string   `json:"level,omitempty"`
	// Bounded: a bounded stand-in run on the real code (labelled bounded, never counted as proved)
	Bounded *BoundedCfg `json:"bounded,omitempty"`
}

type BoundedCfg struct {
	Pkg      string            `json:"pkg"`       // package directory relative to the repository
	TestFile string            `json:"test_file"` // harness (in-package test) injected with go test -overlay
	Test     string            `json:"test"`
	Quick    map[string]string `json:"quick_env"`
	Thorough map[string]string `json:"thorough_env"`
	What     string            `json:"what"`
}

type boundedResult struct {
	ran                                           bool
	histories, exhaustive, nontrivial, failures int
	bounds                                        string
	samples, fails                                []string
	raw                                           string
	secs                                          float64
}

func runBounded(verif, repo string, b *BoundedCfg, thorough bool) *boundedResult {
	res := &boundedResult{}
	env := b.Quick
	if thorough {
		env = b.Thorough
	}
	cmd := exec.Command(filepath.Join(verif, "bounded", "run.sh"), b.Pkg, filepath.Join(verif, b.TestFile), b.Test)
	cmd.Env = append(os.Environ(), "VERIF_REPO="+repo)
	for k, v := range env {
		cmd.Env = append(cmd.Env, k+"="+v)
	}
	t0 := time.Now()
	out, _ := cmd.CombinedOutput()
	res.secs = time.Since(t0).Seconds()
	res.raw = string(out)
	for _, l := range strings.Split(res.raw, "\n") {
		switch {
		case strings.HasPrefix(l, "BOUNDED-STATS "):
			res.ran = true
			for _, f := range strings.Fields(l)[1:] {
				kv := strings.SplitN(f, "=", 2)
				if len(kv) != 2 {
					continue
				}
				n, _ := strconv.Atoi(kv[1])
				switch kv[0] {
				case "histories":
					res.histories = n
				case "exhaustive_histories":
					res.exhaustive = n
				case "distinct_nontrivial":
					res.nontrivial = n
				case "failures":
					res.failures = n
				case "bounds":
					res.bounds = kv[1]
				}
			}
		case strings.HasPrefix(l, "BOUNDED-SAMPLE "):
			res.samples = append(res.samples, strings.TrimPrefix(l, "BOUNDED-SAMPLE "))
		case strings.HasPrefix(l, "BOUNDED-FAIL "):
			res.fails = append(res.fails, strings.TrimPrefix(l, "BOUNDED-FAIL "))
		}
	}
	return res
}

type KnownFinding struct {
	Property   string `json:"property"`
	Obligation string `json:"obligation"`
	What       string `json:"what"`
	Input      string `json:"input,omitempty"`
	Status     string `json:"status"` // open | fixed
	Commit     string `json:"commit,omitempty"`
}

type unclaimedEntry struct {
	Name    string `json:"name"`
	Verdict string `json:"verdict"`
	Reason  string `json:"reason"`
}

func readLines(file string) []string {
	b, err := os.ReadFile(file)
	if err != nil {
		return nil
	}
	var out []string
	for _, l := range strings.Split(string(b), "\n") {
		l = strings.TrimSpace(l)
		if l != "" && !strings.HasPrefix(l, "#") {
			out = append(out, l)
		}
	}
	return out
}

func cmdCheck(mode string, args []string) {
	fs := flag.NewFlagSet(mode, flag.ExitOnError)
	repo := fs.String("repo", "/repo", "repository root")
	verif := fs.String("verif", "/verif", "verification root")
	prop := fs.String("prop", "", "property id")
	tier := fs.String("tier", "quick", "quick | thorough")
	timeout := fs.Int("timeout", 0, "per-solver timeout (default 10 quick / 60 thorough)")
	selftest := fs.Bool("selftest", false, "inner run of the seeded-change self-test: no evidence, no replay files")
	fs.Parse(args)
	if *prop == "" {
		fmt.Fprintln(os.Stderr, "missing -prop")
		os.Exit(2)
	}
	t0 := time.Now()
	thorough := *tier == "thorough"
	if *timeout == 0 {
		*timeout = 10
		if thorough {
			*timeout = 60
		}
	}
	var cfg PropConfig
	cb, err := os.ReadFile(filepath.Join(*verif, "props", *prop+".json"))
	if err != nil {
		fmt.Fprintln(os.Stderr, err)
		os.Exit(2)
	}
	if err := json.Unmarshal(cb, &cfg); err != nil {
		fmt.Fprintln(os.Stderr, "bad prop config:", err)
		os.Exit(2)
	}
	lockFile := filepath.Join(*verif, "locks", *prop+".lock")
	unclFile := filepath.Join(*verif, "locks", *prop+".unclaimed.json")
	locked := map[string]bool{}
	for _, l := range readLines(lockFile) {
		locked[l] = true
	}
	unclaimed := map[string]unclaimedEntry{}
	if b, err := os.ReadFile(unclFile); err == nil {
		var us []unclaimedEntry
		json.Unmarshal(b, &us)
		for _, u := range us {
			unclaimed[u.Name] = u
		}
	}
	var known []KnownFinding
	if b, err := os.ReadFile(filepath.Join(*verif, "known_findings.json")); err == nil {
		json.Unmarshal(b, &known)
	}
	knownOpen := map[string]KnownFinding{}
	for _, k := range known {
		if k.Property == *prop && k.Status == "open" {
			knownOpen[k.Obligation] = k
		}
	}

	violations := 0
	replayDir := filepath.Join(*verif, "replays", *prop)
	if !*selftest {
		os.RemoveAll(replayDir)
	}
	if *selftest {
		replayDir = filepath.Join(os.TempDir(), "govc-selftest-replays")
	}
	report := func(obl, reason, output string, noInput bool) {
		violations++
		os.MkdirAll(replayDir, 0o755)
		f := filepath.Join(replayDir, sanitize(obl)+".json")
		rb, _ := json.MarshalIndent(map[string]interface{}{"property": *prop, "obligation": obl, "reason": reason, "solver_output": output,
			"how_to_rerun": fmt.Sprintf("/verif/bin/govc verify -pkgs %s -funcs '%s' -only '%s'", strings.Join(cfg.Packages, ","), strings.SplitN(obl, "#", 2)[0], obl)}, "", " ")
		os.WriteFile(f, rb, 0o644)
		suffix := ""
		if noInput {
			suffix = " no-failing-input-found"
		}
		fmt.Printf("VIOLATION property=%s replay=%s obligation=%s reason=%s%s\n", *prop, f, obl, reason, suffix)
	}

	var prog *Program
	replaysLeft := 4
	// reportFailed: a claimed obligation failed; where the function is within reach of the scalar replay
	// (engine/replay.go) the failure is turned into a concrete failing input on the real code
	reportFailed := func(j *OblResult, obl, reason string) {
		if prog != nil && replaysLeft > 0 && !*selftest {
			if fn := prog.funcs[j.Obl.Func]; fn != nil && scalarReplayable(fn) {
				replaysLeft--
				ro := prog.replayScalar(*repo, fn, j.Obl, j.Res.Model)
				if os.Getenv("VERIF_DEBUG_REPLAY") != "" {
					if ro == nil {
						fmt.Fprintln(os.Stderr, "replay: not attempted / failed for", obl)
					} else {
						fmt.Fprintf(os.Stderr, "replay %s: confirmed=%v\n%s\n%s\n", obl, ro.Confirmed, ro.Output, ro.Source)
					}
				}
				if ro != nil && ro.Confirmed {
					violations++
					os.MkdirAll(replayDir, 0o755)
					f := filepath.Join(replayDir, sanitize(obl)+".json")
					src := "the solver's counterexample"
					if !ro.FromModel {
						src = "a grid of ordinary and boundary inputs tried after the obligation failed (the solver's counterexample was absent or did not reproduce)"
					}
					// the generated test is kept beside the replay file so that the replay can be re-run as it stands
					tf := filepath.Join(replayDir, sanitize(obl)+"_replay_test.go")
					os.WriteFile(tf, []byte(ro.Source), 0o644)
					rerun := fmt.Sprintf("/verif/replay/run.sh %s %s TestGovcReplay", ro.PkgDir, tf)
					rb, _ := json.MarshalIndent(map[string]interface{}{"property": *prop, "obligation": obl, "reason": reason, "solver_output": j.Res.Output,
						"failing_input": ro.Input, "failing_input_from": src, "replay_test": tf, "replay_output": ro.Output, "how_to_rerun": rerun}, "", " ")
					os.WriteFile(f, rb, 0o644)
					fmt.Printf("VIOLATION property=%s replay=%s obligation=%s reason=%s; replayed on the real code: %s\n", *prop, f, obl, reason, ro.Input)
					return
				}
			}
		}
		report(obl, reason, j.Res.Output, true)
	}

	p, err := loadProgram(*repo, cfg.Packages)
	if err != nil {
		// the tree does not compile: nothing can be established
		fmt.Fprintln(os.Stderr, "load failed:", err)
		writeEvidence(*verif, &cfg, *tier, nil, nil, nil, time.Since(t0).Seconds(), 1, "load failed: "+err.Error(), nil, nil)
		report("load", "repository does not load/compile", err.Error(), true)
		os.Exit(1)
	}
	if err := p.loadContracts(filepath.Join(*verif, "theory")); err != nil {
		fmt.Fprintln(os.Stderr, "contract error:", err)
		os.Exit(2)
	}
	p.computeMods()
	prog = p
	fns, err := resolveFuncs(p, cfg.Functions)
	missingFn := ""
	if err != nil {
		missingFn = err.Error()
	}
	r, _ := newRunner(time.Duration(*timeout)*time.Second, thorough)
	defer r.close()

	// encode
	var vcs []*FuncVC
	for _, fn := range fns {
		vcs = append(vcs, p.encodeFunc(fn))
	}
	// regex obligations of the listed packages
	vcs = append(vcs, regexVCs(p, cfg.RegexPkgs)...)
	// pick what to solve
	var jobs []*OblResult
	skipped := 0
	for _, vc := range vcs {
		for _, o := range vc.Obls {
			if mode == "check" && !thorough && !locked[o.Name] {
				if _, isU := unclaimed[o.Name]; isU {
					skipped++
					continue
				}
			}
			jobs = append(jobs, &OblResult{Obl: o, VC: vc})
		}
	}
	solveAll(r, jobs)
	// a claimed obligation that came back without an answer (timeout / unknown / solver crash) is solved once
	// more with three times the budget and at most four queries at a time, before it is reported: the first
	// pass runs 16 queries at a time and a loaded machine must not turn a proof into an alarm. An answer
	// (unsat or sat) is never retried.
	retried := 0
	if mode == "check" {
		var again []*OblResult
		for _, j := range jobs {
			if locked[j.Obl.Name] && !j.Obl.WantSat && j.Res.Status != "unsat" && j.Res.Status != "sat" {
				again = append(again, j)
			}
		}
		retried = len(again)
		r.timeout *= 3
		solveN(r, again, 4)
		r.timeout /= 3
	}
	lemmaRes := runLemmas(*verif, cfg.Lemmas, r)

	byName := map[string]*OblResult{}
	for _, j := range jobs {
		byName[j.Obl.Name] = j
	}
	generated := map[string]bool{}
	for _, vc := range vcs {
		for _, o := range vc.Obls {
			generated[o.Name] = true
		}
	}

	if mode == "lock" {
		// an obligation that discharged but slowly may only have been slowed down by its 47 neighbours (16 jobs x
		// 3 solvers): measure it again with the machine to itself before leaving it out of the lock
		var slow []*OblResult
		for _, j := range jobs {
			if j.verdict() == "discharged" && j.Res.Secs >= 5.0 {
				slow = append(slow, j)
			}
		}
		for _, j := range slow {
			if res := r.solve(j.VC, j.Obl); res.Status == j.Res.Status && res.Secs < j.Res.Secs {
				j.Res = res
			}
		}
		writeLock(lockFile, unclFile, jobs, lemmaRes, unclaimed, knownOpen)
		fmt.Printf("lock written: %s\n", lockFile)
		for _, vc := range vcs {
			for _, e := range vc.Errors {
				fmt.Printf("ENCODER ERROR %s: %s\n", vc.Func, e)
			}
		}
		return
	}

	// ---- verdict policy ----
	if missingFn != "" {
		report("functions", "function under contract not found: "+missingFn, missingFn, true)
	}
	encErr := map[string]string{}
	for _, vc := range vcs {
		if len(vc.Errors) > 0 {
			encErr[vc.Func] = strings.Join(vc.Errors, "; ")
		}
	}
	discharged, nLocked := 0, 0
	encReported := map[string]bool{}
	var undecidedNew, refutedNew []string
	vanishedByFuncClass := map[string][]string{}
	lockedNames := make([]string, 0, len(locked))
	for n := range locked {
		lockedNames = append(lockedNames, n)
	}
	sort.Strings(lockedNames)
	for _, n := range lockedNames {
		if strings.HasPrefix(n, "lemma:") {
			continue
		}
		nLocked++
		j, ok := byName[n]
		if !ok {
			fn := strings.SplitN(n, "#", 2)[0]
			if e, bad := encErr[fn]; bad {
				// one line per function (its other claimed obligations are lost for the same reason)
				if !encReported[fn] {
					encReported[fn] = true
					report(n, "a contract clause of this function can no longer be attached to the changed code, so none of its claimed obligations is re-established: "+e, e, true)
				}
				continue
			}
			if !generated[n] {
				switch classOf(n) {
				case "post", "pre", "callsite", "inv-init", "inv-pres", "variant", "vacuity", "regex", "frame":
					// a contract clause that can no longer be attached to the code (its call site,
					// loop or function shape is gone): the claimed obligation cannot be re-established
					report(n, "contract-derived obligation is no longer generated from the changed code (the call site / loop / clause it was attached to is gone)", "", true)
				default:
					cls := fn + "#" + classOf(n)
					vanishedByFuncClass[cls] = append(vanishedByFuncClass[cls], n)
				}
			}
			continue
		}
		switch j.verdict() {
		case "discharged":
			discharged++
		case "refuted":
			reportFailed(j, n, "claimed obligation refuted (counterexample in replay file)")
		case "vacuous":
			report(n, "preconditions became unsatisfiable (vacuous proof)", j.Res.Output, true)
		default:
			reportFailed(j, n, "claimed obligation no longer discharges ("+j.Res.Status+")")
		}
	}
	// new obligations
	for _, j := range jobs {
		n := j.Obl.Name
		if locked[n] {
			continue
		}
		if _, isU := unclaimed[n]; isU {
			continue
		}
		v := j.verdict()
		if kf, isK := knownOpen[n]; isK {
			if v != "discharged" {
				fmt.Printf("KNOWN-FINDING: property=%s %s (%s)\n", *prop, kf.What, n)
			}
			continue
		}
		if v == "discharged" {
			continue
		}
		cls := j.Obl.Func + "#" + j.Obl.Class
		if vs := vanishedByFuncClass[cls]; len(vs) > 0 {
			report(n, fmt.Sprintf("obligation %s replaced claimed obligation(s) %v and does not discharge (%s)", n, vs, j.Res.Status), j.Res.Output, true)
			delete(vanishedByFuncClass, cls)
			continue
		}
		if v == "refuted" {
			refutedNew = append(refutedNew, n)
		} else {
			undecidedNew = append(undecidedNew, n)
		}
	}
	// known findings that are unclaimed entries
	for n, kf := range knownOpen {
		if _, solved := byName[n]; !solved {
			if generated[n] || strings.HasPrefix(n, "lemma:") {
				fmt.Printf("KNOWN-FINDING: property=%s %s (%s)\n", *prop, kf.What, n)
			}
		}
	}
	// lemmas
	for _, lr := range lemmaRes {
		n := "lemma:" + lr.Name
		if locked[n] {
			nLocked++
			if lr.Status == "unsat" {
				discharged++
			} else {
				report(n, "lemma no longer proved ("+lr.Status+")", lr.Output, true)
			}
		}
	}
	for n := range locked {
		if strings.HasPrefix(n, "lemma:") {
			found := false
			for _, lr := range lemmaRes {
				if "lemma:"+lr.Name == n {
					found = true
				}
			}
			if !found {
				report(n, "claimed lemma missing", "", true)
			}
		}
	}
	// ---- bounded stand-in (real code, stated bound; never counted as proved) ----
	var bres *boundedResult
	if cfg.Bounded != nil {
		bres = runBounded(*verif, *repo, cfg.Bounded, thorough)
		if !bres.ran {
			violations++
			os.MkdirAll(replayDir, 0o755)
			f := filepath.Join(replayDir, "bounded_harness.json")
			rb, _ := json.MarshalIndent(map[string]interface{}{"property": *prop, "obligation": "bounded:harness", "reason": "the bounded harness did not complete on the real code (panic, hang or build failure)", "output": trunc(bres.raw, 4000)}, "", " ")
			os.WriteFile(f, rb, 0o644)
			fmt.Printf("VIOLATION property=%s replay=%s obligation=bounded:harness reason=bounded harness did not complete on the real code\n", *prop, f)
		}
		for i, fl := range bres.fails {
			hist := ""
			for _, w := range strings.Fields(fl) {
				if strings.HasPrefix(w, "history=") {
					hist = strings.TrimPrefix(w, "history=")
				}
			}
			if kf, isK := knownOpen["bounded:"+hist]; isK {
				fmt.Printf("KNOWN-FINDING: property=%s %s (history %s)\n", *prop, kf.What, hist)
				continue
			}
			violations++
			os.MkdirAll(replayDir, 0o755)
			f := filepath.Join(replayDir, fmt.Sprintf("bounded_%d.json", i))
			rb, _ := json.MarshalIndent(map[string]interface{}{"property": *prop, "obligation": "bounded:" + hist, "failing_history": hist, "observed": fl,
				"how_to_rerun": fmt.Sprintf("VERIF_HISTORY=%s %s/bounded/run.sh %s %s/%s %s", hist, *verif, cfg.Bounded.Pkg, *verif, cfg.Bounded.TestFile, cfg.Bounded.Test)}, "", " ")
			os.WriteFile(f, rb, 0o644)
			fmt.Printf("VIOLATION property=%s replay=%s obligation=bounded:%s reason=%s\n", *prop, f, hist, fl)
		}
	}
	if nLocked == 0 {
		fmt.Fprintln(os.Stderr, "no claimed obligations (empty lock): nothing is established")
		os.Exit(2)
	}
	if *selftest {
		fmt.Printf("SELFTEST-RESULT property=%s violations=%d\n", *prop, violations)
		if violations > 0 {
			r.close()
			os.Exit(1)
		}
		return
	}
	var seedRes []map[string]interface{}
	if thorough && os.Getenv("VERIF_NO_SELFTEST") == "" {
		seedRes = runSeedSelftest(*verif, *repo, *prop)
	}
	writeEvidence(*verif, &cfg, *tier, p, vcs, jobs, time.Since(t0).Seconds(), violations, "", r, &evidenceExtra{
		seeds: seedRes,
		retried: retried, locked: nLocked, discharged: discharged, skipped: skipped, undecidedNew: undecidedNew, refutedNew: refutedNew, unclaimed: unclaimed, lemmas: lemmaRes, known: knownOpen, lockedSet: locked, bounded: bres,
	})
	fmt.Printf("property %s: %d/%d claimed obligations discharged, %d unclaimed, %d new-undecided, %d new-refuted, %.1fs\n",
		*prop, discharged, nLocked, len(unclaimed), len(undecidedNew), len(refutedNew), time.Since(t0).Seconds())
	if violations > 0 {
		r.close()
		os.Exit(1)
	}
}

// regexVCs: one pseudo function per package variable holding a regexp, with one obligation per clause.
func regexVCs(p *Program, pkgs []string) []*FuncVC {
	by := map[string]*FuncVC{}
	var order []string
	for _, c := range p.regexClauses {
		want := false
		for _, pk := range pkgs {
			if pk == c.pkg {
				want = true
			}
		}
		if !want {
			continue
		}
		fn := c.pkg + ".regex:" + c.varN
		vc := by[fn]
		if vc == nil {
			vc = &FuncVC{Func: fn, Notes: map[string]bool{"regular expressions translated to SMT-LIB RegLan over code points; '.' also matches newline": true}}
			by[fn] = vc
			order = append(order, fn)
		}
		o, err := p.regexObligation(c)
		if err != nil {
			vc.Errors = append(vc.Errors, err.Error())
			continue
		}
		vc.Obls = append(vc.Obls, o)
	}
	var out []*FuncVC
	for _, fn := range order {
		out = append(out, by[fn])
	}
	return out
}

func classOf(name string) string {
	parts := strings.SplitN(name, "#", 2)
	if len(parts) < 2 {
		return ""
	}
	return strings.SplitN(parts[1], ":", 2)[0]
}

func solveAll(r *Runner, jobs []*OblResult) { solveN(r, jobs, 16) }

func solveN(r *Runner, jobs []*OblResult, par int) {
	sem := make(chan struct{}, par)
	done := make(chan struct{})
	for _, j := range jobs {
		j := j
		sem <- struct{}{}
		go func() {
			j.Res = r.solve(j.VC, j.Obl)
			<-sem
			done <- struct{}{}
		}()
	}
	for range jobs {
		<-done
	}
}

func writeLock(lockFile, unclFile string, jobs []*OblResult, lemmas []LemmaResult, prev map[string]unclaimedEntry, known map[string]KnownFinding) {
	os.MkdirAll(filepath.Dir(lockFile), 0o755)
	var lock []string
	var uncl []unclaimedEntry
	for _, j := range jobs {
		v := j.verdict()
		if _, isK := known[j.Obl.Name]; isK {
			continue
		}
		if v == "discharged" && j.Res.Secs < 5.0 {
			lock = append(lock, j.Obl.Name)
		} else {
			reason := prev[j.Obl.Name].Reason
			if reason == "" {
				switch v {
				case "refuted":
					reason = "refuted on the unchanged tree: contract/frame too weak here (not replayed as a defect)"
				case "discharged":
					reason = "discharges too slowly for the quick tier"
				default:
					reason = "solver " + j.Res.Status
				}
			}
			uncl = append(uncl, unclaimedEntry{Name: j.Obl.Name, Verdict: v, Reason: reason})
		}
	}
	for _, l := range lemmas {
		if l.Status == "unsat" {
			lock = append(lock, "lemma:"+l.Name)
		} else if _, isK := known["lemma:"+l.Name]; !isK {
			uncl = append(uncl, unclaimedEntry{Name: "lemma:" + l.Name, Verdict: l.Status, Reason: "lemma not proved"})
		}
	}
	sort.Strings(lock)
	sort.Slice(uncl, func(i, j int) bool { return uncl[i].Name < uncl[j].Name })
	os.WriteFile(lockFile, []byte(strings.Join(lock, "\n")+"\n"), 0o644)
	b, _ := json.MarshalIndent(uncl, "", " ")
	os.WriteFile(unclFile, b, 0o644)
	fmt.Printf("locked %d, unclaimed %d\n", len(lock), len(uncl))
}

type evidenceExtra struct {
	locked, discharged, skipped int
	retried                     int
	undecidedNew, refutedNew    []string
	unclaimed                   map[string]unclaimedEntry
	lemmas                      []LemmaResult
	known                       map[string]KnownFinding
	lockedSet                   map[string]bool
	bounded                     *boundedResult
	seeds                       []map[string]interface{}
}

// runSeedSelftest (thorough tier): every seeded change kept for this property under
// /verif/seeded/<prop>-*/patch.diff is applied to a scratch COPY of the repository working tree and the
// quick check is run on that copy: it must report a violation there. The result is evidence about the
// sensitivity of the check (coverage.selftest_seeds); it never changes the verdict on the real tree.
func runSeedSelftest(verif, repo, prop string) []map[string]interface{} {
	var out []map[string]interface{}
	patches, _ := filepath.Glob(filepath.Join(verif, "seeded", prop+"-*", "patch.diff"))
	sort.Strings(patches)
	self, err := os.Executable()
	if err != nil {
		return nil
	}
	for _, pf := range patches {
		seed := filepath.Base(filepath.Dir(pf))
		rec := map[string]interface{}{"seed": seed}
		tmp, err := os.MkdirTemp("", "govc-seed-")
		if err != nil {
			continue
		}
		cp := exec.Command("sh", "-c", fmt.Sprintf("cd %q && tar -c --exclude=.git --exclude=./testdata . | tar -x -C %q", repo, tmp))
		if b, err := cp.CombinedOutput(); err != nil {
			rec["error"] = "copy failed: " + trunc(string(b), 200)
			out = append(out, rec)
			os.RemoveAll(tmp)
			continue
		}
		ap := exec.Command("patch", "-p1", "-s", "-d", tmp, "-i", pf)
		if b, err := ap.CombinedOutput(); err != nil {
			rec["applies"] = false
			rec["note"] = "patch does not apply to the current working tree: " + trunc(string(b), 200)
			out = append(out, rec)
			os.RemoveAll(tmp)
			continue
		}
		rec["applies"] = true
		t0 := time.Now()
		ck := exec.Command(self, "check", "-prop", prop, "-tier", "quick", "-repo", tmp, "-verif", verif, "-selftest")
		b, _ := ck.CombinedOutput()
		n := 0
		var first string
		for _, l := range strings.Split(string(b), "\n") {
			if strings.HasPrefix(l, "VIOLATION") {
				n++
				if first == "" {
					first = trunc(l, 300)
				}
			}
		}
		rec["violations"] = n
		rec["caught"] = n > 0
		rec["first"] = first
		rec["seconds"] = time.Since(t0).Seconds()
		out = append(out, rec)
		os.RemoveAll(tmp)
	}
	return out
}

func writeEvidence(verif string, cfg *PropConfig, tier string, p *Program, vcs []*FuncVC, jobs []*OblResult, wall float64, violations int, fatal string, r *Runner, ex *evidenceExtra) {
	seed := 0
	if s := os.Getenv("VERIF_SEED"); s != "" {
		seed, _ = strconv.Atoi(s)
	}
	cov := map[string]interface{}{}
	assumptions := append([]string{}, cfg.Assumptions...)
	if ex != nil {
		classes := map[string]int{}
		var samples []interface{}
		for _, j := range jobs {
			if ex.lockedSet[j.Obl.Name] {
				classes[j.Obl.Class]++
				if len(samples) < 6 && (j.Obl.Class == "post" || j.Obl.Class == "inv-pres" || j.Obl.Class == "bounds" || j.Obl.Class == "callsite") {
					samples = append(samples, map[string]string{"obligation": j.Obl.Name, "text": j.Obl.Text, "pos": j.Obl.Pos, "goal_smt": trunc(j.Obl.Goal, 400), "verdict": j.verdict(), "solver": j.Res.Solver})
				}
			}
		}
		if len(samples) == 0 {
			for _, j := range jobs {
				if len(samples) < 3 {
					samples = append(samples, map[string]string{"obligation": j.Obl.Name, "text": j.Obl.Text, "verdict": j.verdict()})
				}
			}
		}
		for _, l := range ex.lemmas {
			if len(samples) < 8 {
				samples = append(samples, map[string]string{"lemma": l.Name, "status": l.Status, "solver": l.Solver})
			}
		}
		var fnames []string
		notes := map[string]bool{}
		for _, vc := range vcs {
			fnames = append(fnames, vc.Func)
			for n := range vc.Notes {
				notes[vc.Func+": "+n] = true
			}
		}
		for _, n := range sortedKeys(notes) {
			assumptions = append(assumptions, n)
		}
		var trusted []string
		for _, vc := range vcs {
			if c := p.contracts[vc.Func]; c != nil {
				if c.hasMods {
					trusted = append(trusted, "assumed frame (modifies clause) of "+vc.Func+": "+strings.Join(c.modifies, ","))
				}
				for _, n := range c.notes {
					assumptions = append(assumptions, vc.Func+": "+n)
				}
			}
		}
		// contracts of callees that are used but whose functions are not verified in this property
		used := map[string]bool{}
		for _, vc := range vcs {
			used[vc.Func] = true
		}
		for name, c := range p.contracts {
			if !used[name] && (len(c.ensures) > 0 || c.hasMods) && strings.HasPrefix(name, pkgOfFuncs(cfg.Functions)) {
				_ = c
			}
		}
		var exts []string
		for k := range p.externs {
			exts = append(exts, k)
		}
		sort.Strings(exts)
		cov["obligations"] = ex.locked
		cov["discharged"] = ex.discharged
		cov["checker_cmd"] = fmt.Sprintf("/verif/bin/govc check -prop %s -tier %s", cfg.ID, tier)
		cov["trusted_base"] = append([]string{
			"govc (this engine): go/ssa naive form -> SMT encoding, contract parser, modifies inference, loop cutting",
			"golang.org/x/tools v0.29.0 go/ssa + go/types (the SSA is taken as the meaning of the source)",
			"z3 4.8.12, z3-new 5.1.0, cvc5 1.0 (an unsat from one solver is accepted in the quick tier; thorough runs all and flags disagreement)",
			"machine integers modelled as mathematical integers with type ranges assumed on inputs/loads/results; conversions and unsigned subtraction exact",
			"goroutines: a go statement havocs what the callee may write at every later sync point; no interleaving or race reasoning",
		}, trusted...)
		cov["functions_under_contract"] = fnames
		cov["obligation_classes"] = classes
		cov["samples"] = samples
		cov["solver_wins"] = r.wins
		cov["solver_seconds"] = r.secs
		cov["retried_alone_after_no_answer"] = ex.retried
		var slow []*OblResult
		for _, j := range jobs {
			if ex.lockedSet[j.Obl.Name] {
				slow = append(slow, j)
			}
		}
		sort.Slice(slow, func(a, b int) bool { return slow[a].Res.Secs > slow[b].Res.Secs })
		var slowest []map[string]interface{}
		for i := 0; i < len(slow) && i < 3; i++ {
			slowest = append(slowest, map[string]interface{}{"obligation": slow[i].Obl.Name, "solver": slow[i].Res.Solver, "seconds": slow[i].Res.Secs})
		}
		cov["slowest_claimed_obligations"] = slowest
		cov["unclaimed_obligations"] = len(ex.unclaimed)
		cov["unclaimed_skipped_in_quick"] = ex.skipped
		cov["undecided_new"] = ex.undecidedNew
		cov["refuted_new_not_alarmed"] = ex.refutedNew
		cov["extern_contracts_assumed"] = exts
		cov["not_decided"] = cfg.NotDecided
		var kf []string
		for n, k := range ex.known {
			kf = append(kf, n+": "+k.What)
		}
		sort.Strings(kf)
		cov["known_findings"] = kf
		var ur []map[string]string
		for _, n := range sortedKeys(ex.unclaimed) {
			u := ex.unclaimed[n]
			ur = append(ur, map[string]string{"name": u.Name, "verdict": u.Verdict, "reason": u.Reason})
		}
		cov["unclaimed"] = ur
		cov["lemmas"] = len(ex.lemmas)
		if ex.seeds != nil {
			cov["selftest_seeds"] = ex.seeds
		}
	} else {
		cov["explanation"] = fatal
		cov["obligations"] = 1
		cov["discharged"] = 0
		cov["checker_cmd"] = "govc check"
		cov["trusted_base"] = []string{}
	}
	level := "proof"
	if cfg.Level != "" {
		level = cfg.Level
	}
	if ex != nil && ex.bounded != nil && cfg.Bounded != nil {
		b := ex.bounded
		cov["evaluations"] = b.histories
		cov["distinct_nontrivial"] = b.nontrivial
		cov["exhaustive"] = b.exhaustive > 0
		cov["exhaustive_histories"] = b.exhaustive
		cov["bounded_failures"] = b.failures
		cov["bounds"] = b.bounds
		cov["rule"] = cfg.Bounded.What
		cov["bounded_seconds"] = b.secs
		var hs []interface{}
		for _, h := range b.samples {
			hs = append(hs, map[string]string{"bounded_history": h})
		}
		if old, ok := cov["samples"].([]interface{}); ok {
			hs = append(hs, old...)
		}
		cov["samples"] = hs
		cov["explanation"] = "the property as a whole is decided by the BOUNDED run only (not a proof); the obligations counted under obligations/discharged are deductive proofs of the per-function contracts listed under functions_under_contract"
	}
	ev := map[string]interface{}{
		"property_id": cfg.ID, "tier": tier, "seed": seed, "level": level, "coverage": cov,
		"assumptions": assumptions, "wall_s": wall, "violations": violations,
	}
	// VERIF_EVIDENCE_DIR: the seed/mutation tools run the registered checks on deliberately broken trees;
	// they point this at a scratch directory so that /verif/evidence only ever records runs of the real tree.
	evDir := filepath.Join(verif, "evidence")
	if d := os.Getenv("VERIF_EVIDENCE_DIR"); d != "" {
		evDir = d
	}
	os.MkdirAll(evDir, 0o755)
	b, _ := json.MarshalIndent(ev, "", " ")
	os.WriteFile(filepath.Join(evDir, cfg.ID+".json"), b, 0o644)
}

func pkgOfFuncs(fs []string) string {
	if len(fs) == 0 {
		return ""
	}
	return strings.SplitN(fs[0], ".", 2)[0] + "."
}

func trunc(s string, n int) string {
	if len(s) > n {
		return s[:n] + "..."
	}
	return s
}

// ---- lemma files ---------------------------------------------------------------------------

type LemmaResult struct {
	Name   string
	Status string
	Solver string
	Secs   float64
	Output string
}

// runLemmas: each file under theory/ is a self-contained SMT-LIB script whose (check-sat) must be unsat.
func runLemmas(verif string, files []string, r *Runner) []LemmaResult {
	var all []string
	for _, f := range files {
		matches, _ := filepath.Glob(filepath.Join(verif, "theory", f))
		sort.Strings(matches)
		all = append(all, matches...)
	}
	out := make([]LemmaResult, len(all))
	sem := make(chan struct{}, 8)
	var wg sync.WaitGroup
	for i, m := range all {
		wg.Add(1)
		go func(i int, m string) {
			defer wg.Done()
			sem <- struct{}{}
			defer func() { <-sem }()
			name := strings.TrimSuffix(filepath.Base(m), ".smt2")
			res := LemmaResult{Name: name, Status: "unknown"}
			secs := int(r.timeout.Seconds())
			// native-string lemmas are cvc5's; lemmas over the abstract theory (declare-sort Str) are z3's
			order := []solverSpec{solvers[1], solvers[0], solvers[2]}
			if b, err := os.ReadFile(m); err == nil && strings.Contains(string(b), "(declare-sort Str 0)") {
				order = []solverSpec{solvers[0], solvers[2], solvers[1]}
			}
			for _, sp := range order {
				st, o, d := runSolverFile(sp, m, secs)
				res.Secs += d
				if st == "unsat" || st == "sat" {
					res.Status, res.Solver, res.Output = st, sp.name, o
					break
				}
				res.Output = o
			}
			out[i] = res
		}(i, m)
	}
	wg.Wait()
	return out
}
