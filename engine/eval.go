package main

// Evaluation of spec expressions against a symbolic state.

import (
	"fmt"
	"go/constant"
	"math/big"
	"go/types"
	"strings"

	"golang.org/x/tools/go/ssa"
)

type SVal struct {
	t     string
	typ   types.Type // Go type when known
	sort  string
	isNil bool
	addr  string // struct variable resident in memory, not loaded yet (t == "")
	st    *State // when set: the state to load addr from (a loop-body local named inside prev(): its current value)
}

func isStructType(t types.Type) bool {
	_, ok := t.Underlying().(*types.Struct)
	return ok
}

type Env struct {
	e     *enc
	st    *State
	old   *State
	prev  *State // state at the head of the current loop iteration (step clauses)
	cur   *State // inside prev(): the state at the back edge (variables declared in the loop body are read there)
	loop  *loopInfo
	bound map[string]SVal
	lvals map[string]lval // names that denote memory (captured variables at call sites)
	fn    *ssa.Function   // function whose locals are visible (nil at call sites)
	tpkg  *types.Package
	pkg   string
	what  string
}

type lval struct {
	addr string
	typ  types.Type
}

func (e *enc) envFor(st, old *State) *Env {
	var tp *types.Package
	pk := ""
	f := e.fn
	for f.Pkg == nil && f.Parent() != nil {
		f = f.Parent()
	}
	if f.Pkg != nil {
		tp = f.Pkg.Pkg
		pk = tp.Name()
	}
	return &Env{e: e, st: st, old: old, bound: map[string]SVal{}, lvals: map[string]lval{}, fn: e.fn, tpkg: tp, pkg: pk}
}

func (env *Env) fail(format string, a ...interface{}) {
	panic(fmt.Sprintf("spec error (%s): %s", env.what, fmt.Sprintf(format, a...)))
}

func (e *enc) evalBool(x SExpr, env *Env, what string) string {
	env.what = what
	v := e.evalSpec(x, env)
	if v.sort != "Bool" {
		env.fail("expression is not boolean (sort %s)", v.sort)
	}
	return v.t
}

func specSort(name string) string {
	switch name {
	case "int", "Int", "uint64", "uint32", "int64", "uint", "byte":
		return "Int"
	case "bool", "Bool":
		return "Bool"
	case "Ref", "ref":
		return "Ref"
	case "string", "Str":
		return "Str"
	case "Slice":
		return "Slice"
	case "Iface", "error":
		return "Iface"
	}
	return name
}

// evalSpec evaluates to a value; struct-typed variables that live in memory are loaded here
// (evalRaw keeps them as addresses so that field selection reads only the field).
func (e *enc) evalSpec(x SExpr, env *Env) SVal {
	v := e.evalRaw(x, env)
	if v.addr != "" && v.t == "" {
		st := env.st
		if v.st != nil {
			st = v.st
		}
		v.t = e.loadValue(st, v.addr, v.typ)
		v.addr = ""
	}
	return v
}

func (e *enc) evalRaw(x SExpr, env *Env) SVal {
	switch n := x.(type) {
	case *SInt:
		return SVal{t: n.v, sort: "Int"}
	case *SStr:
		return SVal{t: e.strLit(n.v), sort: "Str", typ: types.Typ[types.String]}
	case *SIdent:
		return e.evalIdent(n.name, env)
	case *SOld:
		env2 := *env
		env2.st = env.old
		return e.evalSpec(n.x, &env2)
	case *SUn:
		v := e.evalSpec(n.x, env)
		if n.op == "!" {
			return SVal{t: not(v.t), sort: "Bool"}
		}
		return SVal{t: "(- " + v.t + ")", sort: v.sort}
	case *SBin:
		return e.evalBin(n, env)
	case *SQuant:
		env2 := *env
		env2.bound = map[string]SVal{}
		for k, v := range env.bound {
			env2.bound[k] = v
		}
		var decls []string
		for i, v := range n.vars {
			s := specSort(n.sorts[i])
			qn := fmt.Sprintf("q_%s", v)
			env2.bound[v] = SVal{t: qn, sort: s}
			decls = append(decls, fmt.Sprintf("(%s %s)", qn, s))
		}
		// Change of variable for quantification over slice elements: when the body indexes a
		// fixed slice S directly with the bound variable i, quantify over the absolute position
		// j = soff(S)+i instead, so that the element address (elem (sarr S) j) contains no
		// arithmetic and E-matching can use it as a trigger. (Exact: i <-> j is a bijection on Int.)
		for i, v := range n.vars {
			if specSort(n.sorts[i]) != "Int" {
				continue
			}
			// the slice may depend on bound variables of other sorts (m[p][i] with p a key): they stay as they
			// are, so the substituted term is well defined wherever q_i is
			var blocking []string
			for k, w := range n.vars {
				if w == v || specSort(n.sorts[k]) == "Int" {
					blocking = append(blocking, w)
				}
			}
			if sx := findIndexedSlice(n.body, v, blocking); sx != nil {
				func() {
					defer func() { recover() }()
					envS := env2
					envS.bound = map[string]SVal{}
					for k, b := range env2.bound {
						envS.bound[k] = b
					}
					sv := e.evalSpec(sx, &envS)
					if sv.sort == "Slice" {
						env2.bound[v] = SVal{t: fmt.Sprintf("(- q_%s (soff %s))", v, sv.t), sort: "Int"}
					}
				}()
			}
		}
		body := e.evalSpec(n.body, &env2)
		q := "forall"
		if !n.forall {
			q = "exists"
		}
		if n.forall {
			var qs []string
			for _, v := range n.vars {
				qs = append(qs, "q_"+v)
			}
			if pat := quantPattern(body.t, qs); pat != "" {
				return SVal{t: fmt.Sprintf("(forall (%s) (! %s :pattern (%s)))", strings.Join(decls, " "), body.t, pat), sort: "Bool"}
			}
		}
		return SVal{t: fmt.Sprintf("(%s (%s) %s)", q, strings.Join(decls, " "), body.t), sort: "Bool"}
	case *SSel:
		// package-qualified constant?
		if id, ok := n.x.(*SIdent); ok {
			if _, isVar := env.bound[id.name]; !isVar {
				// (a local may shadow an imported package name: only take the package reading when
				// the package really has that object)
				if pk := e.importedPkg(env, id.name); pk != nil && pk.Scope().Lookup(n.name) != nil {
					return e.pkgObject(pk, n.name, env)
				}
			}
		}
		v := e.evalRaw(n.x, env)
		return e.selectField(v, n.name, env)
	case *SIndex:
		v := e.evalSpec(n.x, env)
		i := e.evalSpec(n.i, env)
		return e.indexVal(v, i, env)
	case *SSlice:
		v := e.evalSpec(n.x, env)
		lo := "0"
		if n.lo != nil {
			lo = e.evalSpec(n.lo, env).t
		}
		if v.sort == "Slice" {
			hi := fmt.Sprintf("(slen %s)", v.t)
			if n.hi != nil {
				hi = e.evalSpec(n.hi, env).t
			}
			return SVal{t: fmt.Sprintf("(mkslice (sarr %s) (+ (soff %s) %s) (- %s %s) (- (scap %s) %s))", v.t, v.t, lo, hi, lo, v.t, lo), sort: "Slice", typ: v.typ}
		}
		env.fail("slice expression on sort %s", v.sort)
	case *SCall:
		return e.evalCall(n, env)
	}
	env.fail("unsupported spec expression %T", x)
	return SVal{}
}

func (e *enc) importedPkg(env *Env, name string) *types.Package {
	if env.tpkg == nil {
		return nil
	}
	// import aliases used in the package's source files take precedence
	if pk := e.p.allPkgs[env.tpkg.Path()]; pk != nil {
		for _, f := range pk.Syntax {
			for _, is := range f.Imports {
				if is.Name != nil && is.Name.Name == name {
					path := strings.Trim(is.Path.Value, "\"")
					for _, im := range env.tpkg.Imports() {
						if im.Path() == path {
							return im
						}
					}
				}
			}
		}
	}
	for _, im := range env.tpkg.Imports() {
		if im.Name() == name {
			return im
		}
	}
	// also allow any loaded datamon package by name
	if sp, ok := e.p.spkgs[name]; ok {
		return sp.Pkg
	}
	return nil
}

func (e *enc) pkgObject(pk *types.Package, name string, env *Env) SVal {
	obj := pk.Scope().Lookup(name)
	switch o := obj.(type) {
	case *types.Const:
		return e.constVal(o.Val(), o.Type())
	case *types.Var:
		sp := e.p.prog.Package(pk)
		if sp != nil {
			if g, ok := sp.Members[name].(*ssa.Global); ok {
				addr := e.val(g)
				t := o.Type()
				lst := env.st
				if e.p.immutableGlobal(g) && e.entry != nil {
					lst = e.entry
				}
				return SVal{t: e.loadValue(lst, addr, t), typ: t, sort: sortOf(t)}
			}
		}
	}
	env.fail("unknown package object %s.%s", pk.Name(), name)
	return SVal{}
}

func (e *enc) constVal(v constant.Value, t types.Type) SVal {
	switch v.Kind() {
	case constant.Bool:
		if constant.BoolVal(v) {
			return SVal{t: "true", sort: "Bool"}
		}
		return SVal{t: "false", sort: "Bool"}
	case constant.String:
		return SVal{t: e.strLit(constant.StringVal(v)), sort: "Str", typ: t}
	case constant.Int:
		s := v.ExactString()
		if strings.HasPrefix(s, "-") {
			s = "(- " + s[1:] + ")"
		}
		return SVal{t: s, sort: "Int", typ: t}
	}
	panic("unsupported constant kind in spec")
}

func (e *enc) evalIdent(name string, env *Env) SVal {
	if v, ok := env.bound[name]; ok {
		return v
	}
	if lv, ok := env.lvals[name]; ok {
		return SVal{t: e.loadValue(env.st, lv.addr, lv.typ), typ: lv.typ, sort: sortOf(lv.typ)}
	}
	switch name {
	case "true":
		return SVal{t: "true", sort: "Bool"}
	case "false":
		return SVal{t: "false", sort: "Bool"}
	case "nil":
		return SVal{isNil: true, sort: "nil"}
	}
	if env.fn != nil && env.fn == e.fn {
		if g, ok := e.ghost[name]; ok {
			return g
		}
		if gc, ok := e.ghostCells[name]; ok {
			return SVal{t: e.get(env.st, gc.cell, gc.sort), sort: gc.sort, typ: gc.typ}
		}
		for _, p := range e.fn.Params {
			if p.Name() == name {
				return SVal{t: e.val(p), typ: p.Type(), sort: sortOf(p.Type())}
			}
		}
		for _, fv := range e.fn.FreeVars {
			if fv.Name() == name {
				t := fv.Type().Underlying().(*types.Pointer).Elem()
				return SVal{t: e.loadValue(env.st, e.val(fv), t), typ: t, sort: sortOf(t)}
			}
		}
		// locals: name or name#k (k-th alloc with that name in block order)
		want, k := name, 1
		if i := strings.Index(name, "#"); i > 0 {
			want = name[:i]
			fmt.Sscanf(name[i+1:], "%d", &k)
		}
		cnt := 0
		// rangeindex#k: the index variable of the range loop that is loop number k (source order)
		var loopIdx *ssa.Alloc
		if want == "rangeindex" && strings.Contains(name, "#") {
			for h, li := range e.loops {
				if li.ordinal != k {
					continue
				}
				for _, ins := range h.Instrs {
					if s, ok := ins.(*ssa.Store); ok {
						if a, ok := s.Addr.(*ssa.Alloc); ok && a.Comment == "rangeindex" {
							loopIdx = a
						}
					}
				}
			}
			if loopIdx == nil {
				env.fail("loop %d is not a range-over-slice loop", k)
			}
		}
		for _, b := range e.fn.Blocks {
			for _, ins := range b.Instrs {
				if a, ok := ins.(*ssa.Alloc); ok && a.Comment == want {
					cnt++
					if loopIdx != nil {
						if a != loopIdx {
							continue
						}
					} else if cnt != k {
						continue
					}
					t := a.Type().Underlying().(*types.Pointer).Elem()
					if e.scalar[a] {
						cn := e.cellName(a)
						e.cellSortOf[cn] = sortOf(t)
						if v, ok := env.st.cells[cn]; ok {
							return SVal{t: v, typ: t, sort: sortOf(t)}
						}
						return SVal{t: e.zeroOf(t), typ: t, sort: sortOf(t)}
					}
					ref, ok := e.allocRef[a]
					if !ok {
						ref = e.newAllocRefFor(a)
						e.allocRef[a] = ref
					}
					if isStructType(t) {
						return SVal{addr: ref, typ: t, sort: sortOf(t)}
					}
					return SVal{t: e.loadValue(env.st, ref, t), typ: t, sort: sortOf(t)}
				}
			}
		}
	}
	if env.tpkg != nil {
		if obj := env.tpkg.Scope().Lookup(name); obj != nil {
			return e.pkgObject(env.tpkg, name, env)
		}
	}
	env.fail("unknown identifier %q", name)
	return SVal{}
}

func findFieldPath(st *types.Struct, name string) []int {
	for i := 0; i < st.NumFields(); i++ {
		if st.Field(i).Name() == name {
			return []int{i}
		}
	}
	for i := 0; i < st.NumFields(); i++ {
		f := st.Field(i)
		if !f.Embedded() {
			continue
		}
		if inner := structOf(f.Type()); inner != nil {
			if p := findFieldPath(inner, name); p != nil {
				return append([]int{i}, p...)
			}
		}
	}
	return nil
}

func (e *enc) selectField(v SVal, name string, env *Env) SVal {
	if v.typ == nil {
		env.fail("field %s of untyped value", name)
	}
	st := structOf(v.typ)
	if st == nil {
		env.fail("field %s of non-struct %s", name, v.typ)
	}
	path := findFieldPath(st, name)
	if path == nil {
		env.fail("no field %s in %s", name, v.typ)
	}
	_, isPtr := v.typ.Underlying().(*types.Pointer)
	cur := v
	for _, idx := range path {
		s := structOf(cur.typ)
		f := s.Field(idx)
		if cur.addr != "" && cur.t == "" {
			// struct resident in memory: address arithmetic, load only the leaf
			fa := e.mkFld(cur.addr, fieldID(f))
			lst := env.st
			if cur.st != nil {
				lst = cur.st
			}
			if isStructType(f.Type()) {
				cur = SVal{addr: fa, typ: f.Type(), sort: sortOf(f.Type()), st: cur.st}
			} else {
				cur = SVal{t: e.specLoad(lst, fa, f.Type()), typ: f.Type(), sort: sortOf(f.Type())}
			}
			continue
		}
		if _, ptr := cur.typ.Underlying().(*types.Pointer); ptr {
			addr := e.mkFld(cur.t, fieldID(f))
			cur = SVal{t: e.specLoad(env.st, addr, f.Type()), typ: f.Type(), sort: sortOf(f.Type())}
		} else {
			si := structSort(cur.typ)
			cur = SVal{t: projField(si, idx, cur.t), typ: f.Type(), sort: sortOf(f.Type())}
		}
	}
	_ = isPtr
	return cur
}

func (e *enc) indexVal(v, i SVal, env *Env) SVal {
	switch v.sort {
	case "Slice":
		var et types.Type
		if v.typ != nil {
			if sl, ok := v.typ.Underlying().(*types.Slice); ok {
				et = sl.Elem()
			}
		}
		if et == nil {
			env.fail("index of slice with unknown element type")
		}
		arrT, offT := slicePart(v.t, 0), slicePart(v.t, 1)
		idx := fmt.Sprintf("(+ %s %s)", offT, i.t)
		if offT == "0" {
			idx = i.t
		}
		if suf := fmt.Sprintf(" (soff %s))", v.t); strings.HasPrefix(i.t, "(- q_") && strings.HasSuffix(i.t, suf) {
			idx = strings.TrimSuffix(strings.TrimPrefix(i.t, "(- "), suf) // absolute position (see SQuant)
		}
		addr := e.mkElem(arrT, idx)
		return SVal{t: e.loadValue(env.st, addr, et), typ: et, sort: sortOf(et)}
	case "Str":
		return SVal{t: fmt.Sprintf("(strat %s %s)", v.t, i.t), sort: "Int"}
	case "Ref":
		if v.typ != nil {
			if mt, ok := v.typ.Underlying().(*types.Map); ok {
				_, vc := e.mapCells(env.st, mt)
				return SVal{t: fmt.Sprintf("(select (select %s %s) %s)", e.get(env.st, vc, e.mapCellSort(vc)), v.t, i.t), typ: mt.Elem(), sort: sortOf(mt.Elem())}
			}
			if pt, ok := v.typ.Underlying().(*types.Pointer); ok {
				if at, ok := pt.Elem().Underlying().(*types.Array); ok {
					addr := e.mkElem(v.t, i.t)
					return SVal{t: e.loadValue(env.st, addr, at.Elem()), typ: at.Elem(), sort: sortOf(at.Elem())}
				}
			}
		}
	}
	if strings.HasPrefix(v.sort, "(Array ") {
		var et types.Type
		if v.typ != nil {
			if at, ok := v.typ.Underlying().(*types.Array); ok {
				et = at.Elem()
			}
		}
		es := "Int"
		if et != nil {
			es = sortOf(et)
		}
		return SVal{t: fmt.Sprintf("(select %s %s)", v.t, i.t), typ: et, sort: es}
	}
	env.fail("cannot index value of sort %s", v.sort)
	return SVal{}
}

// slicePart returns component k (0 arr, 1 off, 2 len, 3 cap) of a slice term, syntactically when the
// term is a (mkslice ...) application (so that addresses into local arrays stay recognisable).
func slicePart(t string, k int) string {
	acc := []string{"sarr", "soff", "slen", "scap"}[k]
	if !strings.HasPrefix(t, "(mkslice ") || !strings.HasSuffix(t, ")") {
		return "(" + acc + " " + t + ")"
	}
	body := t[len("(mkslice ") : len(t)-1]
	var parts []string
	d, start := 0, 0
	for i, c := range body {
		switch c {
		case '(':
			d++
		case ')':
			d--
		case ' ':
			if d == 0 {
				parts = append(parts, body[start:i])
				start = i + 1
			}
		}
	}
	parts = append(parts, body[start:])
	if len(parts) != 4 {
		return "(" + acc + " " + t + ")"
	}
	return parts[k]
}

func (e *enc) nilOf(sort string) string {
	switch sort {
	case "Ref":
		return "null"
	case "Iface":
		return "inil"
	case "Slice":
		return "nilslice"
	}
	return "null"
}

func (e *enc) evalBin(n *SBin, env *Env) SVal {
	switch n.op {
	case "&&", "||", "==>", "<==>":
		a := e.evalSpec(n.x, env)
		b := e.evalSpec(n.y, env)
		if a.sort != "Bool" || b.sort != "Bool" {
			env.fail("operator %s on non-boolean operands (%s, %s)", n.op, a.sort, b.sort)
		}
		switch n.op {
		case "&&":
			return SVal{t: and(a.t, b.t), sort: "Bool"}
		case "||":
			return SVal{t: or(a.t, b.t), sort: "Bool"}
		case "==>":
			return SVal{t: implies(a.t, b.t), sort: "Bool"}
		}
		return SVal{t: fmt.Sprintf("(= %s %s)", a.t, b.t), sort: "Bool"}
	}
	a := e.evalSpec(n.x, env)
	b := e.evalSpec(n.y, env)
	switch n.op {
	case "==", "!=":
		var t string
		switch {
		case a.isNil && b.isNil:
			t = "true"
		case a.isNil || b.isNil:
			o := a
			if a.isNil {
				o = b
			}
			if o.sort == "Slice" {
				t = fmt.Sprintf("(= (sarr %s) null)", o.t)
			} else {
				t = eq(o.t, e.nilOf(o.sort))
			}
		default:
			if a.sort != b.sort {
				env.fail("comparison of different sorts %s and %s", a.sort, b.sort)
			}
			t = eq(a.t, b.t)
		}
		if n.op == "!=" {
			t = not(t)
		}
		return SVal{t: t, sort: "Bool"}
	case "<", "<=", ">", ">=":
		return SVal{t: fmt.Sprintf("(%s %s %s)", n.op, a.t, b.t), sort: "Bool"}
	case "+", "-", "*":
		if a.sort == "Str" && n.op == "+" {
			return SVal{t: fmt.Sprintf("(strcat %s %s)", a.t, b.t), sort: "Str", typ: a.typ}
		}
		return SVal{t: fmt.Sprintf("(%s %s %s)", n.op, a.t, b.t), sort: "Int"}
	case "/":
		return SVal{t: fmt.Sprintf("(godiv %s %s)", a.t, b.t), sort: "Int"}
	case "%":
		return SVal{t: fmt.Sprintf("(gomod %s %s)", a.t, b.t), sort: "Int"}
	}
	env.fail("unknown operator %s", n.op)
	return SVal{}
}

func (e *enc) evalCall(n *SCall, env *Env) SVal {
	arg := func(i int) SVal { return e.evalSpec(n.args[i], env) }
	if n.fun == "$prev" {
		if env.prev == nil {
			env.fail("prev() is only meaningful in loop step clauses")
		}
		// prev(e): e at the head of the iteration - every variable, also those declared in the loop body (their
		// storage then holds what the previous iteration left). cur(e) inside prev() goes back to the state at the
		// back edge: prev(m[cur(k)]) reads the OLD map at the CURRENT key.
		env2 := *env
		env2.st = env.prev
		if env2.cur == nil {
			env2.cur = env.st
		}
		return e.evalSpec(n.args[0], &env2)
	}
	if n.fun == "cur" {
		if env.cur == nil {
			env.fail("cur() is only meaningful inside prev()")
		}
		env3 := *env
		env3.st, env3.cur = env.cur, nil
		return e.evalSpec(n.args[0], &env3)
	}
	switch n.fun {
	case "len":
		v := arg(0)
		switch v.sort {
		case "Slice":
			return SVal{t: fmt.Sprintf("(slen %s)", v.t), sort: "Int"}
		case "Str":
			return SVal{t: fmt.Sprintf("(strlen %s)", v.t), sort: "Int"}
		case "Ref":
			if v.typ != nil {
				if mt, ok := v.typ.Underlying().(*types.Map); ok {
					return SVal{t: e.mapLen(env.st, mt, v.t), sort: "Int"}
				}
			}
		}
		if v.typ != nil {
			if at, ok := v.typ.Underlying().(*types.Array); ok {
				return SVal{t: fmt.Sprint(at.Len()), sort: "Int"}
			}
		}
		env.fail("len of sort %s", v.sort)
	case "cap":
		v := arg(0)
		if v.sort == "Slice" {
			return SVal{t: fmt.Sprintf("(scap %s)", v.t), sort: "Int"}
		}
		if v.sort == "Ref" {
			e.declareFun("chancap", "(Ref) Int")
			return SVal{t: fmt.Sprintf("(chancap %s)", v.t), sort: "Int"}
		}
		env.fail("cap of sort %s", v.sort)
	case "int", "int64", "int32", "uint", "uint64", "int16", "int8":
		// spec integers are mathematical: these conversions are the identity
		v := arg(0)
		return SVal{t: v.t, sort: "Int"}
	case "uint32", "uint16", "uint8", "byte":
		// narrowing unsigned conversions keep Go's wrap-around so that specs can mirror the code
		v := arg(0)
		m := map[string]string{"uint32": "4294967296", "uint16": "65536", "uint8": "256", "byte": "256"}[n.fun]
		return SVal{t: fmt.Sprintf("(mod %s %s)", v.t, m), sort: "Int"}
	case "min":
		return SVal{t: fmt.Sprintf("(imin %s %s)", arg(0).t, arg(1).t), sort: "Int"}
	case "max":
		return SVal{t: fmt.Sprintf("(imax %s %s)", arg(0).t, arg(1).t), sort: "Int"}
	case "ite":
		c, a, b := arg(0), arg(1), arg(2)
		return SVal{t: fmt.Sprintf("(ite %s %s %s)", c.t, a.t, b.t), sort: a.sort, typ: a.typ}
	case "arr":
		// arr(s): the backing array reference of a slice
		return SVal{t: fmt.Sprintf("(sarr %s)", arg(0).t), sort: "Ref"}
	case "off":
		return SVal{t: fmt.Sprintf("(soff %s)", arg(0).t), sort: "Int"}
	case "addrof":
		// addrof(x): the address of the (address-taken) local variable or parameter copy x of this function
		id, ok := n.args[0].(*SIdent)
		if !ok || env.fn == nil || env.fn != e.fn {
			env.fail("addrof(localName) expected")
		}
		want, k := id.name, 1
		if i := strings.Index(want, "#"); i > 0 {
			fmt.Sscanf(want[i+1:], "%d", &k)
			want = want[:i]
		}
		cnt := 0
		for _, b := range e.fn.Blocks {
			for _, ins := range b.Instrs {
				if a, ok := ins.(*ssa.Alloc); ok && a.Comment == want {
					cnt++
					if cnt != k {
						continue
					}
					if e.scalar[a] {
						env.fail("addrof(%s): the variable's address is never taken", id.name)
					}
					ref, ok := e.allocRef[a]
					if !ok {
						ref = e.newAllocRefFor(a)
						e.allocRef[a] = ref
					}
					return SVal{t: ref, sort: "Ref", typ: a.Type()}
				}
			}
		}
		env.fail("addrof(%s): no such local", id.name)
	case "fresh":
		// fresh(x): x (a pointer, or the backing array of a slice) was allocated by this activation
		// (it is not memory the caller or anybody else already held)
		a := arg(0)
		if a.sort == "Slice" {
			return SVal{t: fmt.Sprintf("(< (root (sarr %s)) 0)", a.t), sort: "Bool"}
		}
		return SVal{t: fmt.Sprintf("(< (root %s) 0)", a.t), sort: "Bool"}
	case "isvar":
		// isvar(p): p points to a whole variable (not to a field of a struct nor to an array element)
		return SVal{t: fmt.Sprintf("((_ is alloc) %s)", arg(0).t), sort: "Bool"}
	case "object":
		// object(p): the identity of the allocated object a pointer (or a slice's backing array) lies in;
		// two references into different objects never alias
		a := arg(0)
		if a.sort == "Slice" {
			return SVal{t: fmt.Sprintf("(root (sarr %s))", a.t), sort: "Int"}
		}
		return SVal{t: fmt.Sprintf("(root %s)", a.t), sort: "Int"}
	case "stored", "updated", "content", "size":
		// abstract store theory: ghost state of a storage.Store value, per key
		s, k := arg(0), arg(1)
		if s.sort != "Iface" || k.sort != "Str" {
			env.fail("%s(store, key) expects (Iface, Str), got (%s, %s)", n.fun, s.sort, k.sort)
		}
		kind := n.fun
		if kind == "stored" {
			kind = "exists"
		}
		cell, vs := e.storeCell(kind)
		return SVal{t: fmt.Sprintf("(select (select %s %s) %s)", e.get(env.st, cell, e.cellSortOf[cell]), s.t, k.t), sort: vs}
	case "bitor", "bitand":
		a, b := arg(0), arg(1)
		var x, y big.Int
		if _, ok1 := x.SetString(a.t, 10); ok1 {
			if _, ok2 := y.SetString(b.t, 10); ok2 {
				var r big.Int
				if n.fun == "bitor" {
					r.Or(&x, &y)
				} else {
					r.And(&x, &y)
				}
				return SVal{t: r.String(), sort: "Int"}
			}
		}
		if _, ok := y.SetString(b.t, 10); ok && n.fun == "bitor" && y.Sign() > 0 && new(big.Int).And(&y, new(big.Int).Sub(&y, big.NewInt(1))).Sign() == 0 {
			return SVal{t: orBitTerm(a.t, b.t), sort: "Int"}
		}
		return SVal{t: fmt.Sprintf("(%s %s %s)", n.fun, a.t, b.t), sort: "Int"}
	case "has":
		// has(m, k): key k is present in map m
		m, k := arg(0), arg(1)
		if m.typ == nil {
			env.fail("has() of untyped map")
		}
		mt, ok := m.typ.Underlying().(*types.Map)
		if !ok {
			env.fail("has() expects a map")
		}
		d, _ := e.mapCells(env.st, mt)
		return SVal{t: fmt.Sprintf("(and (not (= %s null)) (select (select %s %s) %s))", m.t, e.get(env.st, d, e.mapCellSort(d)), m.t, k.t), sort: "Bool"}
	case "dec":
		// decimal rendering of an integer (fmt.Sprint of an integer operand)
		e.declareFun("dec", "(Int) Str")
		return SVal{t: fmt.Sprintf("(dec %s)", arg(0).t), sort: "Str", typ: types.Typ[types.String]}
	case "sent", "rcvd":
		if len(n.args) != 1 {
			env.fail("sent/rcvd(<channel>) takes one argument")
		}
		name := specPathText(n.args[0])
		if n.fun == "rcvd" {
			name = "<-" + name
		}
		cell, ok := e.sentCounters[name]
		if !ok {
			env.fail("sent(" + name + "): not a channel name known to this contract")
		}
		return SVal{t: e.get(env.st, cell, "Int"), sort: "Int"}
	case "strlt":
		return SVal{t: fmt.Sprintf("(strlt %s %s)", arg(0).t, arg(1).t), sort: "Bool"}
	case "hasPrefix":
		e.declareFun("hasPrefix", "(Str Str) Bool")
		return SVal{t: fmt.Sprintf("(hasPrefix %s %s)", arg(0).t, arg(1).t), sort: "Bool"}
	case "hasSuffix":
		e.declareFun("hasSuffix", "(Str Str) Bool")
		return SVal{t: fmt.Sprintf("(hasSuffix %s %s)", arg(0).t, arg(1).t), sort: "Bool"}
	case "contains":
		e.declareFun("strcontains", "(Str Str) Bool")
		return SVal{t: fmt.Sprintf("(strcontains %s %s)", arg(0).t, arg(1).t), sort: "Bool"}
	case "cat":
		r := arg(0).t
		for i := 1; i < len(n.args); i++ {
			r = fmt.Sprintf("(strcat %s %s)", r, arg(i).t)
		}
		return SVal{t: r, sort: "Str", typ: types.Typ[types.String]}
	case "as", "asptr":
		// as(x, T): the value of (package-level) type T held by the interface value x; asptr(x, T): of type *T
		v := arg(0)
		id, ok := n.args[1].(*SIdent)
		if !ok || v.sort != "Iface" {
			env.fail("as(ifaceValue, TypeName) expected")
		}
		var tt types.Type
		if env.tpkg != nil {
			if obj, ok := env.tpkg.Scope().Lookup(id.name).(*types.TypeName); ok {
				tt = obj.Type()
			}
		}
		if tt == nil {
			env.fail("unknown type %s", id.name)
		}
		if n.fun == "asptr" {
			tt = types.NewPointer(tt)
		}
		tid := e.typeID(tt)
		s := sortOf(tt)
		un := fmt.Sprintf("ival_%d", tid)
		e.declareFun(un, fmt.Sprintf("(Iface) %s", s))
		return SVal{t: fmt.Sprintf("(%s %s)", un, v.t), typ: tt, sort: s}
	case "iface":
		// iface(x): the interface value holding the typed value x
		v := arg(0)
		if v.typ == nil {
			env.fail("iface() of untyped value")
		}
		if v.sort == "Iface" {
			return v
		}
		id := e.typeID(v.typ)
		fn := fmt.Sprintf("mkiface_%d", id)
		un := fmt.Sprintf("ival_%d", id)
		e.declareFun(fn, fmt.Sprintf("(%s) Iface", v.sort))
		e.declareFun(un, fmt.Sprintf("(Iface) %s", v.sort))
		r := fmt.Sprintf("(%s %s)", fn, v.t)
		if !strings.Contains(r, "q_") {
			e.assertOnce(fmt.Sprintf("(and (not (= %s inil)) (= (itype %s) %d) (= (%s %s) %s))", r, r, id, un, r, v.t))
		}
		return SVal{t: r, sort: "Iface"}
	case "deref":
		// deref(p): the value stored at pointer p
		v := arg(0)
		if v.typ == nil {
			env.fail("deref() of untyped value")
		}
		pt, ok := v.typ.Underlying().(*types.Pointer)
		if !ok {
			env.fail("deref() of non-pointer %s", v.typ)
		}
		return SVal{t: e.loadValue(env.st, v.t, pt.Elem()), typ: pt.Elem(), sort: sortOf(pt.Elem())}
	case "isnil":
		v := arg(0)
		if v.sort == "Slice" {
			return SVal{t: fmt.Sprintf("(= (sarr %s) null)", v.t), sort: "Bool"}
		}
		return SVal{t: eq(v.t, e.nilOf(v.sort)), sort: "Bool"}
	}
	// a deterministic, effect-free Go function of the program used as a spec function
	{
		gname := n.fun
		if !strings.Contains(gname, ".") {
			gname = env.pkg + "." + gname
		}
		gf, ok := e.p.funcs[gname]
		if !ok {
			// Type.method(recv, args...)
			if parts := strings.SplitN(n.fun, ".", 2); len(parts) == 2 {
				for _, cand := range []string{env.pkg + ".(*" + parts[0] + ")." + parts[1], env.pkg + ".(" + parts[0] + ")." + parts[1]} {
					if f2, ok2 := e.p.funcs[cand]; ok2 {
						gf, ok, gname = f2, true, cand
					}
				}
			}
		}
		if ok && e.p.isDet(gf) && len(gf.Params) == len(n.args) {
			var as, sorts []string
			for i := range n.args {
				v := arg(i)
				as = append(as, v.t)
				sorts = append(sorts, sortOf(gf.Params[i].Type()))
			}
			for _, fp := range e.p.mods[gf].footprints() {
				t, s := e.heapArgTerm(env.st, fp)
				sorts = append(sorts, s)
				as = append(as, t)
			}
			res := gf.Signature.Results()
			if res.Len() >= 1 {
				fnm := "pure_" + sanitize(gname) + "_0"
				rs := sortOf(res.At(0).Type())
				if len(as) == 0 {
					e.declare(fnm, rs)
					return SVal{t: fnm, sort: rs, typ: res.At(0).Type()}
				}
				e.declareFun(fnm, fmt.Sprintf("(%s) %s", strings.Join(sorts, " "), rs))
				rt := fmt.Sprintf("(%s %s)", fnm, strings.Join(as, " "))
				// the function's own (verified) contract holds for this application
				if fc := e.p.contracts[gname]; fc != nil && !strings.Contains(rt, "q_") && !e.asserted["fnax|"+rt] {
					e.asserted["fnax|"+rt] = true
					cenv := &Env{e: e, st: env.st, old: env.st, bound: map[string]SVal{}, lvals: map[string]lval{}, pkg: env.pkg, tpkg: env.tpkg}
					f := gf
					for f.Pkg == nil && f.Parent() != nil {
						f = f.Parent()
					}
					if f.Pkg != nil {
						cenv.tpkg, cenv.pkg = f.Pkg.Pkg, f.Pkg.Pkg.Name()
					}
					for i, pr := range gf.Params {
						cenv.bound[pr.Name()] = SVal{t: as[i], typ: pr.Type(), sort: sortOf(pr.Type())}
					}
					rsv := SVal{t: rt, typ: res.At(0).Type(), sort: rs}
					cenv.bound["ret0"], cenv.bound["result"] = rsv, rsv
					if nm := res.At(0).Name(); nm != "" && nm != "_" {
						cenv.bound[nm] = rsv
					}
					pre := "true"
					okAll := true
					for _, rq := range fc.requires {
						g, ok := e.tryEvalBool(rq.expr, cenv, "requires of "+gname)
						if !ok {
							okAll = false
							break
						}
						pre = and(pre, g)
					}
					if okAll && res.Len() == 1 {
						for _, en := range fc.ensures {
							if g, ok := e.tryEvalBool(en.expr, cenv, "ensures of "+gname); ok {
								e.assert(implies(pre, g))
							}
						}
					}
				}
				return SVal{t: rt, sort: rs, typ: res.At(0).Type()}
			}
		}
	}
	// predicate macro
	name := n.fun
	if !strings.Contains(name, ".") {
		name = env.pkg + "." + name
	}
	if pd, ok := e.p.preds[name]; ok {
		if len(pd.params) != len(n.args) {
			env.fail("predicate %s expects %d arguments", n.fun, len(pd.params))
		}
		env2 := *env
		env2.bound = map[string]SVal{}
		for k, v := range env.bound {
			env2.bound[k] = v
		}
		for i, pn := range pd.params {
			env2.bound[pn] = arg(i)
		}
		// predicate bodies resolve package names in their own package
		if sp, ok := e.p.spkgs[pd.pkg]; ok {
			env2.tpkg = sp.Pkg
			env2.pkg = pd.pkg
		}
		env2.fn = nil
		return e.evalSpec(pd.body, &env2)
	}
	// a deterministic library function over plain values (path.Base, strings.HasPrefix, ...)
	if parts := strings.SplitN(n.fun, ".", 2); len(parts) == 2 {
		if pk := e.importedPkg(env, parts[0]); pk != nil && !strings.HasPrefix(pk.Path(), datamonPrefix) {
			if tf, ok := pk.Scope().Lookup(parts[1]).(*types.Func); ok {
				det := false
				for _, dp := range detPkgs {
					if pk.Path() == dp {
						det = true
					}
				}
				sig := tf.Type().(*types.Signature)
				if det && sig.Params().Len() == len(n.args) && sig.Results().Len() >= 1 {
					var as, sorts []string
					okArgs := true
					for i := range n.args {
						ps := sortOf(sig.Params().At(i).Type())
						if ps != "Int" && ps != "Bool" && ps != "Str" {
							okArgs = false
						}
						as = append(as, arg(i).t)
						sorts = append(sorts, ps)
					}
					if okArgs {
						fnm := "pure_" + sanitize(pk.Name()+"."+tf.Name()) + "_0"
						rs := sortOf(sig.Results().At(0).Type())
						e.declareFun(fnm, fmt.Sprintf("(%s) %s", strings.Join(sorts, " "), rs))
						return SVal{t: fmt.Sprintf("(%s %s)", fnm, strings.Join(as, " ")), sort: rs, typ: sig.Results().At(0).Type()}
					}
				}
			}
		}
	}
	short := n.fun
	if i := strings.LastIndex(short, "."); i >= 0 {
		short = short[i+1:]
	}
	if sf, ok := e.p.specFuns[short]; ok {
		var as []string
		var sorts []string
		for i := range n.args {
			as = append(as, arg(i).t)
		}
		for _, s := range sf.args {
			sorts = append(sorts, specSort(s))
		}
		e.declareFun("spec_"+sf.name, fmt.Sprintf("(%s) %s", strings.Join(sorts, " "), specSort(sf.ret)))
		if len(as) == 0 {
			return SVal{t: "spec_" + sf.name, sort: specSort(sf.ret)}
		}
		return SVal{t: fmt.Sprintf("(spec_%s %s)", sf.name, strings.Join(as, " ")), sort: specSort(sf.ret)}
	}
	env.fail("unknown function or predicate %s", n.fun)
	return SVal{}
}

func (e *enc) mapLen(st *State, mt *types.Map, m string) string {
	d, _ := e.mapCells(st, mt)
	fn := "maplen_" + sortKey(sortOf(mt.Key()))
	e.declareFun(fn, fmt.Sprintf("((Array %s Bool)) Int", sortOf(mt.Key())))
	t := fmt.Sprintf("(%s (select %s %s))", fn, e.get(st, d, e.mapCellSort(d)), m)
	e.assertOnce(fmt.Sprintf("(>= %s 0)", t))
	return t
}

// findIndexedSlice looks for a sub-expression X[v] where X mentions none of the quantified
// variables; it returns X.
func findIndexedSlice(x SExpr, v string, bound []string) SExpr {
	mentions := func(y SExpr) bool {
		found := false
		var walk func(z SExpr)
		walk = func(z SExpr) {
			switch n := z.(type) {
			case *SIdent:
				for _, b := range bound {
					if n.name == b {
						found = true
					}
				}
			case *SSel:
				walk(n.x)
			case *SIndex:
				walk(n.x)
				walk(n.i)
			case *SSlice:
				walk(n.x)
				if n.lo != nil {
					walk(n.lo)
				}
				if n.hi != nil {
					walk(n.hi)
				}
			case *SCall:
				for _, a := range n.args {
					walk(a)
				}
			case *SUn:
				walk(n.x)
			case *SBin:
				walk(n.x)
				walk(n.y)
			case *SOld:
				walk(n.x)
			case *SQuant:
				walk(n.body)
			}
		}
		walk(y)
		return found
	}
	var res SExpr
	var walk func(z SExpr)
	walk = func(z SExpr) {
		if res != nil {
			return
		}
		switch n := z.(type) {
		case *SIndex:
			if id, ok := n.i.(*SIdent); ok && id.name == v && !mentions(n.x) {
				if _, isOld := n.x.(*SOld); !isOld {
					res = n.x
					return
				}
			}
			walk(n.x)
			walk(n.i)
		case *SSel:
			walk(n.x)
		case *SSlice:
			walk(n.x)
		case *SCall:
			for _, a := range n.args {
				walk(a)
			}
		case *SUn:
			walk(n.x)
		case *SBin:
			walk(n.x)
			walk(n.y)
		case *SOld:
			// state differs inside old(): do not pick from there
		case *SQuant:
			for _, b := range n.vars {
				if b == v {
					return
				}
			}
			walk(n.body)
		}
	}
	walk(x)
	return res
}

// projField applies a struct accessor to a term; applied to a literal constructor (mk_S a b c) it returns the
// field term itself (keeps quantified specifications and loads small).
func projField(si *structInfo, i int, term string) string {
	pre := "(mk_" + si.sort + " "
	if strings.HasPrefix(term, pre) && strings.HasSuffix(term, ")") {
		body := term[len(pre) : len(term)-1]
		var parts []string
		d, start := 0, 0
		for k := 0; k < len(body); k++ {
			switch body[k] {
			case '(':
				d++
			case ')':
				d--
			case ' ':
				if d == 0 {
					parts = append(parts, body[start:k])
					start = k + 1
				}
			}
		}
		parts = append(parts, body[start:])
		if len(parts) == len(si.fields) && d == 0 {
			return parts[i]
		}
	}
	return fmt.Sprintf("(%s %s)", si.fields[i], term)
}

// specLoad: a memory read made by a specification. Like a read made by the code it comes with the type's
// range facts (a slice header is well formed, an integer is in range) - old(len(s)) >= 0 must not need
// the code to have read s. Only for ground addresses (no bound variable), and only scalars / slices.
func (e *enc) specLoad(st *State, addr string, t types.Type) string {
	v := e.loadValue(st, addr, t)
	if strings.Contains(v, "q_") {
		return v
	}
	switch t.Underlying().(type) {
	case *types.Basic, *types.Slice:
		for _, f := range e.facts(v, t, false) {
			e.assertOnce(f)
		}
	}
	return v
}

// specPathText: the source text of an identifier or selector path (a.b.c) in a specification.
func specPathText(x SExpr) string {
	switch n := x.(type) {
	case *SIdent:
		return n.name
	case *SSel:
		return specPathText(n.x) + "." + n.name
	}
	return "?"
}
