package main

import "strings"

// Trigger selection for quantified specifications that relate a slice element to its neighbour
// (s[j] against s[j+1]). Left to the solver, the whole body is a trigger candidate: instantiating at j
// creates the term for j+1, which matches again (a matching loop) and the query times out although
// the instances needed are few. When the body contains both a memory read whose address holds the bound
// variable as a bare element index and another element address with arithmetic on it, the bare reads
// are given as the pattern. Bodies without index arithmetic are left alone.

type sx struct {
	atom string
	kids []*sx
}

func parseSx(s string) *sx {
	pos := 0
	var rec func() *sx
	rec = func() *sx {
		for pos < len(s) && s[pos] == ' ' {
			pos++
		}
		if pos >= len(s) {
			return nil
		}
		if s[pos] == '(' {
			pos++
			n := &sx{}
			for {
				for pos < len(s) && s[pos] == ' ' {
					pos++
				}
				if pos >= len(s) {
					return n
				}
				if s[pos] == ')' {
					pos++
					return n
				}
				k := rec()
				if k == nil {
					return n
				}
				n.kids = append(n.kids, k)
			}
		}
		st := pos
		for pos < len(s) && s[pos] != ' ' && s[pos] != '(' && s[pos] != ')' {
			pos++
		}
		return &sx{atom: s[st:pos]}
	}
	return rec()
}

func (n *sx) String() string {
	if n.kids == nil && n.atom != "" {
		return n.atom
	}
	var ps []string
	for _, k := range n.kids {
		ps = append(ps, k.String())
	}
	return "(" + strings.Join(ps, " ") + ")"
}

func (n *sx) head() string {
	if len(n.kids) > 0 && n.kids[0].kids == nil {
		return n.kids[0].atom
	}
	return ""
}

func (n *sx) mentions(v string) bool {
	if n.kids == nil {
		return n.atom == v
	}
	for _, k := range n.kids {
		if k.mentions(v) {
			return true
		}
	}
	return false
}

// bareOnly: every occurrence of a bound variable in n is the index of an (elem base v) term.
func (n *sx) bareOnly(vars map[string]bool) bool {
	if n.kids == nil {
		return !vars[n.atom]
	}
	if n.head() == "elem" && len(n.kids) == 3 && n.kids[2].kids == nil && vars[n.kids[2].atom] {
		return n.kids[1].bareOnly(vars)
	}
	for _, k := range n.kids {
		if !k.bareOnly(vars) {
			return false
		}
	}
	return true
}

// quantPattern returns a :pattern for the body, or "" to leave trigger selection to the solver.
func quantPattern(body string, qvars []string) string {
	vars := map[string]bool{}
	for _, v := range qvars {
		vars[v] = true
	}
	root := parseSx(body)
	if root == nil {
		return ""
	}
	arith := false
	var reads []*sx
	seen := map[string]bool{}
	var walk func(n *sx, inQuant bool)
	walk = func(n *sx, inQuant bool) {
		if n.kids == nil {
			return
		}
		h := n.head()
		if h == "forall" || h == "exists" {
			inQuant = true
		}
		if h == "elem" && len(n.kids) == 3 {
			idx := n.kids[2]
			for v := range vars {
				if idx.kids != nil && idx.mentions(v) {
					arith = true
				}
			}
		}
		if h == "select" && !inQuant {
			any := false
			for v := range vars {
				if n.mentions(v) {
					any = true
				}
			}
			if any && n.bareOnly(vars) {
				t := n.String()
				if !seen[t] {
					seen[t] = true
					reads = append(reads, n)
				}
				return
			}
		}
		for _, k := range n.kids {
			walk(k, inQuant)
		}
	}
	walk(root, false)
	if !arith || len(reads) == 0 {
		return ""
	}
	// one read per bound variable is enough (a multi-pattern when there are several variables)
	var chosen []string
	covered := map[string]bool{}
	for _, r := range reads {
		adds := false
		for v := range vars {
			if !covered[v] && r.mentions(v) {
				adds = true
			}
		}
		if adds {
			chosen = append(chosen, r.String())
			for v := range vars {
				if r.mentions(v) {
					covered[v] = true
				}
			}
		}
	}
	for v := range vars {
		if !covered[v] {
			return ""
		}
	}
	return strings.Join(chosen, " ")
}
