package main

import (
	"fmt"
	"os"
	"path/filepath"
	"regexp"
	"sort"
	"strconv"
	"strings"
)

type Clause struct {
	kind  string
	label string
	text  string
	expr  SExpr
	file  string
	line  int
}

type LoopContract struct {
	invariants []*Clause
	decreases  *Clause
	steps      []*Clause // per-iteration postconditions: checked at every back edge, prev(e) = e at the iteration's start
}

type CallClause struct {
	kind  string // assert | bind | assume
	label string
	name  string // bind name
	text  string
	expr  SExpr
}

type GhostDef struct {
	name string
	expr SExpr
	text string
}

type FuncContract struct {
	name       string
	pkg        string
	requires   []*Clause
	ensures    []*Clause
	assumes    []*Clause // entry assumptions NOT checked at call sites (listed as assumptions)
	postAssumed []*Clause // postconditions given to callers but NOT checked against the body (listed as assumptions)
	loops      map[int]*LoopContract
	calls      map[string][]*CallClause
	ghosts     []*GhostDef
	trusted    bool
	nooverflow bool
	pure       bool
	hasMods    bool
	modifies   []string
	extern     bool
	params     []string // externs: parameter names (receiver first for methods as "self")
	results    []string
	file       string
	line       int
	notes      []string
	only       map[string]int // "only <callee|send:chan|recv:chan> <n>": exact number of such sites in the function
}

type PredDef struct {
	name   string
	pkg    string
	params []string
	body   SExpr
	text   string
}

type SpecFun struct {
	name string
	args []string
	ret  string
}

var (
	reFuncHdr   = regexp.MustCompile(`^func\s+(.+?)\s*$`)
	reExternHdr = regexp.MustCompile(`^extern\s+func\s+([^\s(]+(?:\(\*?\w+\)\.[\w$]+)?)\s*\(([^)]*)\)\s*(?:\(([^)]*)\))?\s*$`)
	rePred      = regexp.MustCompile(`^pred\s+(\w+)\s*\(([^)]*)\)\s*=\s*(.*)$`)
	reSpecFun   = regexp.MustCompile(`^spec\s+func\s+(\w+)\s*\(([^)]*)\)\s*(.+)$`)
	reLabel     = regexp.MustCompile(`^\[([\w.\-]+)\]\s*(.*)$`)
	reLoop      = regexp.MustCompile(`^loop\s+(\d+)\s+(invariant|decreases|step)\s+(.*)$`)
	reCall      = regexp.MustCompile(`^call\s+(\S+)\s+(assert|bind|assume)\s+(.*)$`)
	reGhost     = regexp.MustCompile(`^ghost\s+(\w+)\s*=\s*(.*)$`)
)

func splitList(s string) []string {
	var out []string
	for _, f := range strings.Split(s, ",") {
		f = strings.TrimSpace(f)
		if f == "" {
			continue
		}
		// "name type" -> name
		out = append(out, strings.Fields(f)[0])
	}
	return out
}

// loadContracts reads every contracts_verif.go under the repo's pkg tree plus
// extern spec files from /verif/theory.
func (p *Program) loadContracts(theoryDir string) error {
	var files []string
	for _, pk := range p.allPkgs {
		if !strings.HasPrefix(pk.PkgPath, datamonPrefix) || len(pk.GoFiles) == 0 {
			continue
		}
		f := filepath.Join(filepath.Dir(pk.GoFiles[0]), "contracts_verif.go")
		if _, err := os.Stat(f); err == nil {
			files = append(files, f+"\x00"+pk.Name)
		}
	}
	sort.Strings(files)
	for _, fp := range files {
		parts := strings.Split(fp, "\x00")
		if err := p.parseContractFile(parts[0], parts[1]); err != nil {
			return err
		}
		p.contractFiles = append(p.contractFiles, parts[0])
	}
	if theoryDir != "" {
		ms, _ := filepath.Glob(filepath.Join(theoryDir, "*.spec"))
		sort.Strings(ms)
		for _, f := range ms {
			if err := p.parseContractFile(f, "theory"); err != nil {
				return err
			}
		}
	}
	return nil
}

func (p *Program) parseContractFile(file, pkgName string) error {
	b, err := os.ReadFile(file)
	if err != nil {
		return err
	}
	// collect logical lines
	type lline struct {
		text string
		line int
	}
	var lines []lline
	for i, raw := range strings.Split(string(b), "\n") {
		s := strings.TrimSpace(raw)
		if !strings.HasPrefix(s, "//@") {
			continue
		}
		s = strings.TrimSpace(strings.TrimPrefix(s, "//@"))
		if s == "" {
			continue
		}
		// strip trailing comments "  // ..."
		if k := strings.Index(s, " // "); k >= 0 {
			s = strings.TrimSpace(s[:k])
		}
		if strings.HasPrefix(s, "|") {
			if len(lines) == 0 {
				return fmt.Errorf("%s:%d: continuation without clause", file, i+1)
			}
			lines[len(lines)-1].text += " " + strings.TrimSpace(s[1:])
			continue
		}
		lines = append(lines, lline{s, i + 1})
	}
	var cur *FuncContract
	mk := func(kind, text string, line int) (*Clause, error) {
		label := ""
		if m := reLabel.FindStringSubmatch(text); m != nil {
			label, text = m[1], m[2]
		}
		e, err := parseSpec(text)
		if err != nil {
			return nil, fmt.Errorf("%s:%d: %v", file, line, err)
		}
		return &Clause{kind: kind, label: label, text: text, expr: e, file: file, line: line}, nil
	}
	for _, l := range lines {
		s := l.text
		switch {
		case rePred.MatchString(s):
			m := rePred.FindStringSubmatch(s)
			e, err := parseSpec(m[3])
			if err != nil {
				return fmt.Errorf("%s:%d: %v", file, l.line, err)
			}
			p.preds[pkgName+"."+m[1]] = &PredDef{name: m[1], pkg: pkgName, params: splitList(m[2]), body: e, text: m[3]}
			cur = nil
		case strings.HasPrefix(s, "regex "):
			// regex <var> covers|within|equals [label] "<spec>" [except "<regex>"]
			m := regexp.MustCompile(`^regex\s+(\w+)\s+(covers|within|equals)\s+\[([\w.\-]+)\]\s+"(.*?)"(?:\s+except\s+"(.*)")?\s*$`).FindStringSubmatch(s)
			if m == nil {
				return fmt.Errorf("%s:%d: bad regex clause", file, l.line)
			}
			p.regexClauses = append(p.regexClauses, &RegexClause{pkg: pkgName, varN: m[1], kind: m[2], label: m[3], spec: m[4], except: m[5], file: file, line: l.line})
			cur = nil
		case reSpecFun.MatchString(s):
			m := reSpecFun.FindStringSubmatch(s)
			var args []string
			for _, a := range strings.Split(m[2], ",") {
				a = strings.TrimSpace(a)
				if a != "" {
					args = append(args, a)
				}
			}
			p.specFuns[m[1]] = &SpecFun{name: m[1], args: args, ret: strings.TrimSpace(m[3])}
			cur = nil
		case reExternHdr.MatchString(s):
			m := reExternHdr.FindStringSubmatch(s)
			cur = &FuncContract{name: m[1], pkg: pkgName, extern: true, params: splitList(m[2]), results: splitList(m[3]),
				loops: map[int]*LoopContract{}, calls: map[string][]*CallClause{}, file: file, line: l.line}
			p.externs[m[1]] = cur
		case reFuncHdr.MatchString(s) && strings.HasPrefix(s, "func "):
			m := reFuncHdr.FindStringSubmatch(s)
			name := m[1]
			if !strings.Contains(strings.SplitN(name, "(", 2)[0], ".") || strings.HasPrefix(name, "(") {
				name = pkgName + "." + name
			}
			cur = &FuncContract{name: name, pkg: pkgName, loops: map[int]*LoopContract{}, calls: map[string][]*CallClause{}, file: file, line: l.line}
			if _, dup := p.contracts[name]; dup {
				return fmt.Errorf("%s:%d: duplicate contract for %s", file, l.line, name)
			}
			p.contracts[name] = cur
		default:
			if cur == nil {
				return fmt.Errorf("%s:%d: clause outside a func block: %s", file, l.line, s)
			}
			kw := strings.Fields(s)[0]
			rest := strings.TrimSpace(strings.TrimPrefix(s, kw))
			switch kw {
			case "requires", "ensures", "assume", "ensures-assumed":
				c, err := mk(kw, rest, l.line)
				if err != nil {
					return err
				}
				switch kw {
				case "requires":
					cur.requires = append(cur.requires, c)
				case "ensures":
					cur.ensures = append(cur.ensures, c)
				case "ensures-assumed":
					cur.postAssumed = append(cur.postAssumed, c)
				default:
					cur.assumes = append(cur.assumes, c)
				}
			case "loop":
				m := reLoop.FindStringSubmatch(s)
				if m == nil {
					return fmt.Errorf("%s:%d: bad loop clause", file, l.line)
				}
				n, _ := strconv.Atoi(m[1])
				lc := cur.loops[n]
				if lc == nil {
					lc = &LoopContract{}
					cur.loops[n] = lc
				}
				c, err := mk(m[2], m[3], l.line)
				if err != nil {
					return err
				}
				switch m[2] {
				case "invariant":
					lc.invariants = append(lc.invariants, c)
				case "step":
					lc.steps = append(lc.steps, c)
				default:
					lc.decreases = c
				}
			case "call", "send", "recv":
				if pm := regexp.MustCompile(`^call\s+(\S+)\s+pure$`).FindStringSubmatch(s); pm != nil {
					// caller-side assumption: this call has no effect on memory / stores
					cur.calls[pm[1]] = append(cur.calls[pm[1]], &CallClause{kind: "pure", text: "pure"})
					continue
				}
				if fm := regexp.MustCompile(`^recv\s+(\S+)\s+flag\s+(\w+)$`).FindStringSubmatch(s); fm != nil {
					cur.calls["recv:"+fm[1]] = append(cur.calls["recv:"+fm[1]], &CallClause{kind: "flag", name: fm[2], text: "flag " + fm[2]})
					continue
				}
				m := reCall.FindStringSubmatch("call" + strings.TrimPrefix(s, kw))
				if m == nil {
					return fmt.Errorf("%s:%d: bad call clause", file, l.line)
				}
				if kw == "send" {
					m[1] = "send:" + m[1] // send <chan>#k assert ... ($val = the value sent)
				}
				if kw == "recv" {
					m[1] = "recv:" + m[1] // recv <chan> assume ... ($val = the value received)
				}
				cc := &CallClause{kind: m[2]}
				text := m[3]
				if m[2] == "bind" {
					g := regexp.MustCompile(`^(\w+)\s*=\s*(.*)$`).FindStringSubmatch(text)
					if g == nil {
						return fmt.Errorf("%s:%d: bad bind", file, l.line)
					}
					cc.name, text = g[1], g[2]
				} else if lm := reLabel.FindStringSubmatch(text); lm != nil {
					cc.label, text = lm[1], lm[2]
				}
				e, err := parseSpec(text)
				if err != nil {
					return fmt.Errorf("%s:%d: %v", file, l.line, err)
				}
				cc.expr, cc.text = e, text
				cur.calls[m[1]] = append(cur.calls[m[1]], cc)
			case "ghost":
				m := reGhost.FindStringSubmatch(s)
				if m == nil {
					return fmt.Errorf("%s:%d: bad ghost clause", file, l.line)
				}
				e, err := parseSpec(m[2])
				if err != nil {
					return fmt.Errorf("%s:%d: %v", file, l.line, err)
				}
				cur.ghosts = append(cur.ghosts, &GhostDef{name: m[1], expr: e, text: m[2]})
			case "trusted":
				cur.trusted = true
			case "nooverflow":
				cur.nooverflow = true
			case "pure":
				cur.pure = true
				cur.hasMods = true
			case "modifies":
				cur.hasMods = true
				for _, f := range strings.Split(rest, ",") {
					f = strings.TrimSpace(f)
					if f != "" && f != "nothing" {
						cur.modifies = append(cur.modifies, f)
					}
				}
			case "note":
				cur.notes = append(cur.notes, rest)
			case "only":
				// only <callee> <n>: the function has exactly n call sites of <callee> (send:<chan> / recv:<chan>
				// for channel operations): a structural frame - nothing else emits / deletes / sends
				f := strings.Fields(rest)
				if len(f) != 2 {
					return fmt.Errorf("%s:%d: only <callee> <n>", file, l.line)
				}
				n, err := strconv.Atoi(f[1])
				if err != nil {
					return fmt.Errorf("%s:%d: only <callee> <n>", file, l.line)
				}
				if cur.only == nil {
					cur.only = map[string]int{}
				}
				cur.only[f[0]] = n
			default:
				return fmt.Errorf("%s:%d: unknown clause %q", file, l.line, kw)
			}
		}
	}
	return nil
}

func clauseKey(c *Clause, i int) string {
	if c.label != "" {
		return c.label
	}
	return strconv.Itoa(i + 1)
}
