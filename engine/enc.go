package main

// SSA (naive form) -> verification conditions.

import (
	"regexp"
	"fmt"
	"go/ast"
	"go/constant"
	"go/token"
	"go/types"
	"sort"
	"strings"

	"golang.org/x/tools/go/ssa"
)

type Obligation struct {
	Name     string
	Func     string
	Class    string
	Key      string
	Goal     string
	Guard    string
	NAsserts int
	Pos      string
	Text     string
	WantSat  bool // vacuity checks: must be satisfiable
	Raw      string // self-contained query (regex obligations): unsat means the obligation holds
}

type FuncVC struct {
	Func      string
	Decls     []string
	Asserts   []string
	Obls      []*Obligation
	Notes     map[string]bool
	ModelVars []string
	Errors    []string
}

type State struct {
	cells map[string]string
}

func (s *State) clone() *State {
	n := &State{cells: make(map[string]string, len(s.cells))}
	for k, v := range s.cells {
		n.cells[k] = v
	}
	return n
}

type closureInfo struct {
	fn       *ssa.Function
	bindings []ssa.Value
	mc       *ssa.MakeClosure
}

type loopInfo struct {
	header  *ssa.BasicBlock
	ordinal int
	blocks  map[*ssa.BasicBlock]bool
	latches []*ssa.BasicBlock
	variant string // value of the decreases expression at loop head
	hstate  *State
}

type deferRec struct {
	ins   *ssa.Defer
	armed string // cell name
}

type enc struct {
	mentioned map[string]bool // field names some clause of the contract mentions (lazily built)
	p   *Program
	fn  *ssa.Function
	c   *FuncContract
	out *FuncVC
	qn  string

	vals     map[ssa.Value][]string
	scalar   map[*ssa.Alloc]bool
	allocRef map[*ssa.Alloc]string
	nAlloc   int
	nFresh   int
	declared map[string]bool
	asserted map[string]bool

	blockOut  map[*ssa.BasicBlock]*State
	reachOut  map[*ssa.BasicBlock]string
	edgeCond  map[[2]*ssa.BasicBlock]string
	loops     map[*ssa.BasicBlock]*loopInfo
	backEdge  map[[2]*ssa.BasicBlock]bool
	order     []*ssa.BasicBlock
	cur       *ssa.BasicBlock
	reach     string // current path condition
	entry     *State
	ghost     map[string]SVal
	closures  map[ssa.Value]*closureInfo
	defers    []*deferRec
	retStates []retRec
	callOcc   map[string]int
	oblSeen   map[string]int
	checked   map[string][]*ssa.BasicBlock
	volatile  *ModSet
	strLits   map[string]string
	typeIDs   map[string]int
	mutexHeld map[string]bool

	mapEpoch       int
	cellSortOf     map[string]string
	ghostCells     map[string]*ghostCell
	sentCounters   map[string]string // channel name (as in send:<name> sites) -> ghost counter cell, for sent(<name>)
	protCache      map[*ssa.Alloc]bool
	nObj           int
	volatileLocals map[*ssa.Alloc]bool
	siteOrd        map[ssa.Instruction]int
	projs          map[string]*projInfo
	projOrder      []*projInfo
	elemAddr       map[string]bool
	firstPass      bool
	lockTouched    map[string]bool
}

type retRec struct {
	st    *State
	reach string
	vals  []string
}

func (p *Program) encodeFunc(fn *ssa.Function) *FuncVC {
	vc, gcs, prs := p.encodeFuncPass(fn, nil, nil)
	if len(vc.Errors) == 0 {
		if gcs == nil {
			gcs = map[string]*ghostCell{}
		}
		// second pass: ghost cells bound at call sites and heap projections used by pure callees are
		// now known from the start (loop heads havoc the former, every heap update relates the latter)
		vc, _, _ = p.encodeFuncPass(fn, gcs, prs)
	}
	return vc
}

func sortedBlocks(m map[*ssa.BasicBlock]bool) []*ssa.BasicBlock {
	var bs []*ssa.BasicBlock
	for b := range m {
		bs = append(bs, b)
	}
	sort.Slice(bs, func(i, j int) bool { return bs[i].Index < bs[j].Index })
	return bs
}

func (p *Program) encodeFuncPass(fn *ssa.Function, pre map[string]*ghostCell, preProjs []*projInfo) (vc *FuncVC, gcs map[string]*ghostCell, prs []*projInfo) {
	e := &enc{p: p, fn: fn, qn: p.qname(fn), c: p.contracts[p.qname(fn)],
		vals: map[ssa.Value][]string{}, scalar: map[*ssa.Alloc]bool{}, allocRef: map[*ssa.Alloc]string{},
		declared: map[string]bool{}, asserted: map[string]bool{},
		blockOut: map[*ssa.BasicBlock]*State{}, reachOut: map[*ssa.BasicBlock]string{}, edgeCond: map[[2]*ssa.BasicBlock]string{},
		loops: map[*ssa.BasicBlock]*loopInfo{}, backEdge: map[[2]*ssa.BasicBlock]bool{},
		ghost: map[string]SVal{}, closures: map[ssa.Value]*closureInfo{}, callOcc: map[string]int{}, oblSeen: map[string]int{},
		checked: map[string][]*ssa.BasicBlock{}, strLits: map[string]string{}, typeIDs: map[string]int{}, volatile: newModSet(),
		cellSortOf: map[string]string{}, ghostCells: map[string]*ghostCell{}, protCache: map[*ssa.Alloc]bool{}, volatileLocals: map[*ssa.Alloc]bool{},
	}
	e.out = &FuncVC{Func: e.qn, Notes: map[string]bool{}}
	e.registerSentCounters()
	e.projs, e.elemAddr = map[string]*projInfo{}, map[string]bool{}
	e.firstPass = pre == nil && preProjs == nil
	e.lockTouched = map[string]bool{}
	for _, pr := range preProjs {
		e.projs[pr.fp.key()] = pr
		e.projOrder = append(e.projOrder, pr)
	}
	for k, gc := range pre {
		e.ghostCells[k] = gc
		e.cellSortOf[gc.cell] = gc.sort
		if strings.HasSuffix(gc.cell, "_set") {
			e.declare(gc.cell+"_0", "Bool")
			e.assertOnce("(not " + gc.cell + "_0)")
		}
	}
	defer func() {
		if r := recover(); r != nil {
			e.out.Errors = append(e.out.Errors, fmt.Sprintf("encoder: %v", r))
			vc = e.out
			gcs, prs = nil, nil
		}
	}()
	e.run()
	e.theoryAxioms()
	return e.out, e.ghostCells, e.projOrder
}

// theoryAxioms: facts about the abstract string functions, added only to the VCs that use them. Each is a
// lemma over real strings proved by cvc5 on every run of the checks that list it (theory/strings/*.smt2).
func (e *enc) theoryAxioms() {
	if e.declared["strcontains"] {
		for _, a := range []string{
			"(forall ((a Str) (x Str)) (! (strcontains (strcat a x) x) :pattern ((strcat a x))))",
			"(forall ((a Str) (b Str) (x Str)) (! (=> (strcontains a x) (strcontains (strcat a b) x)) :pattern ((strcontains (strcat a b) x))))",
			"(forall ((a Str) (b Str) (x Str)) (! (=> (strcontains b x) (strcontains (strcat a b) x)) :pattern ((strcontains (strcat a b) x))))",
		} {
			e.out.Decls = append(e.out.Decls, "(assert "+a+")")
		}
		e.note("string containment: x occurs in a+x; what occurs in a or in b occurs in a+b (lemmas theory/strings/contains_*.smt2, proved by cvc5 over native strings)")
	}
	if lit, ok := e.strLits[""]; ok {
		e.out.Decls = append(e.out.Decls,
			"(assert (forall ((a Str)) (! (= (strcat a "+lit+") a) :pattern ((strcat a "+lit+")))))",
			"(assert (forall ((a Str)) (! (= (strcat "+lit+" a) a) :pattern ((strcat "+lit+" a)))))")
		e.note("the empty string is neutral for concatenation (lemma theory/strings/affix_empty.smt2, proved by cvc5 over native strings)")
	}
	if e.declared["hasSuffix"] {
		e.out.Decls = append(e.out.Decls,
			"(assert (forall ((a Str) (b Str)) (! (hasSuffix (strcat a b) b) :pattern ((strcat a b)))))",
			"(assert (forall ((a Str)) (! (hasSuffix a a) :pattern ((hasSuffix a a)))))",
			"(assert (forall ((a Str) (b Str) (x Str)) (! (=> (hasSuffix b x) (hasSuffix (strcat a b) x)) :pattern ((hasSuffix (strcat a b) x)))))",
			"(assert (forall ((a Str) (b Str) (x Str)) (! (=> (and (hasSuffix (strcat a b) x) (<= (strlen x) (strlen b))) (hasSuffix b x)) :pattern ((hasSuffix (strcat a b) x)))))")
		e.note("string suffixes: b is a suffix of a+b and of itself; a suffix of b is one of a+b, and a suffix of a+b no longer than b is one of b (lemmas theory/strings/affix_suffix*.smt2, proved by cvc5 over native strings)")
	}
	if e.declared["hasPrefix"] {
		e.out.Decls = append(e.out.Decls,
			"(assert (forall ((a Str) (b Str)) (! (hasPrefix (strcat a b) a) :pattern ((strcat a b)))))",
			"(assert (forall ((a Str)) (! (hasPrefix a a) :pattern ((hasPrefix a a)))))")
		e.note("string prefixes: a is a prefix of a+b and of itself (lemma theory/strings/affix_prefix.smt2, proved by cvc5 over native strings)")
	}
}

// ---- small helpers -----------------------------------------------------------------------

func (e *enc) note(s string) { e.out.Notes[s] = true }

func (e *enc) declare(name, sort string) {
	if e.declared[name] {
		return
	}
	e.declared[name] = true
	e.out.Decls = append(e.out.Decls, fmt.Sprintf("(declare-const %s %s)", name, sort))
}

func (e *enc) declareFun(name, sig string) {
	if e.declared[name] {
		return
	}
	e.declared[name] = true
	e.out.Decls = append(e.out.Decls, fmt.Sprintf("(declare-fun %s %s)", name, sig))
}

func (e *enc) fresh(hint, sort string) string {
	e.nFresh++
	n := fmt.Sprintf("%s_%d", sanitize(hint), e.nFresh)
	e.declare(n, sort)
	return n
}

// assert adds an unconditional assertion (definitions of fresh symbols only).
func (e *enc) assert(t string) {
	if t == "true" || t == "" {
		return
	}
	e.out.Asserts = append(e.out.Asserts, t)
}

func (e *enc) assertOnce(t string) {
	if e.asserted[t] {
		return
	}
	e.asserted[t] = true
	e.assert(t)
}

// assume adds a fact guarded by the current path condition.
func (e *enc) assume(t string) {
	if t == "true" || t == "" {
		return
	}
	e.assert(implies(e.reach, t))
}

func (e *enc) assumeAll(ts []string) {
	for _, t := range ts {
		e.assume(t)
	}
}

func (e *enc) posOf(pos token.Pos) string {
	if !pos.IsValid() {
		return ""
	}
	pp := e.p.fset.Position(pos)
	return fmt.Sprintf("%s:%d", relRepo(e.p.repo, pp.Filename), pp.Line)
}

// oblige records an obligation; afterwards the goal is assumed on the current path.
func (e *enc) oblige(class, key, goal string, pos token.Pos, text string) {
	implicit := class == "bounds" || class == "nil" || class == "div0" || class == "makeslice" || class == "overflow" || class == "typeassert" || class == "nilmap"
	if goal == "true" && implicit {
		return // contract-derived obligations are kept even when they fold to true: a change may unfold them
	}
	// skip re-checking an identical goal already checked in a dominating block
	ck := class + "|" + goal
	if implicit {
		for _, b := range e.checked[ck] {
			if e.cur != nil && (b == e.cur || b.Dominates(e.cur)) {
				return
			}
		}
		if e.cur != nil {
			e.checked[ck] = append(e.checked[ck], e.cur)
		}
	}
	base := class + ":" + key
	e.oblSeen[base]++
	if n := e.oblSeen[base]; n > 1 {
		key = fmt.Sprintf("%s#%d", key, n)
	}
	o := &Obligation{Name: e.qn + "#" + class + ":" + key, Func: e.qn, Class: class, Key: key, Goal: goal, Guard: e.reach,
		NAsserts: len(e.out.Asserts), Pos: e.posOf(pos), Text: text}
	e.out.Obls = append(e.out.Obls, o)
	// end-of-path obligations are independent of each other: assuming one would mask the next
	if class != "post" && class != "inv-pres" && class != "variant" && class != "frame" {
		e.assume(goal)
	}
}

func (e *enc) srcText(pos token.Pos, want func(ast.Node) bool) string {
	n := e.p.nodeAt(e.fn, pos, want)
	if n == nil {
		return ""
	}
	return normText(e.p.source(n.Pos(), n.End()))
}

// ---- refs ----------------------------------------------------------------------------------

func (e *enc) mkFld(base string, id int) string {
	t := fmt.Sprintf("(fld %s %d)", base, id)
	if strings.Contains(t, "q_") {
		return t
	}
	e.assertOnce(fmt.Sprintf("(= (root %s) (root %s))", t, base))
	return t
}

func (e *enc) mkElem(base, idx string) string {
	t := fmt.Sprintf("(elem %s %s)", base, idx)
	if strings.Contains(t, "q_") {
		return t
	}
	e.assertOnce(fmt.Sprintf("(= (root %s) (root %s))", t, base))
	return t
}

func (e *enc) newAllocRef() string {
	e.nAlloc++
	t := fmt.Sprintf("(alloc (- %d))", e.nAlloc)
	e.assertOnce(fmt.Sprintf("(= (root %s) (- %d))", t, e.nAlloc))
	return t
}

func (e *enc) strLit(s string) string {
	if n, ok := e.strLits[s]; ok {
		return n
	}
	n := fmt.Sprintf("strlit_%d", len(e.strLits))
	e.strLits[s] = n
	e.declare(n, "Str")
	e.assert(fmt.Sprintf("(= (strlen %s) %d)", n, len(s)))
	if s == "" {
		// the empty string is the only string of length 0
		e.assert(fmt.Sprintf("(forall ((s Str)) (! (=> (= (strlen s) 0) (= s %s)) :pattern ((strlen s))))", n))
	}
	// distinct from every other literal
	for _, o := range sortedKeys(e.strLits) {
		if o != s {
			e.assert(fmt.Sprintf("(not (= %s %s))", n, e.strLits[o]))
		}
	}
	return n
}

func (e *enc) typeID(t types.Type) int {
	k := t.String()
	if id, ok := e.typeIDs[k]; ok {
		return id
	}
	id := len(e.typeIDs) + 1
	e.typeIDs[k] = id
	return id
}

// ---- state ---------------------------------------------------------------------------------

func (e *enc) get(st *State, cell, sort string) string {
	if t, ok := st.cells[cell]; ok {
		return t
	}
	// initial value: a function-wide constant
	n := sanitize(cell) + "_0"
	e.declare(n, sort)
	st.cells[cell] = n
	if e.entry != nil && st != e.entry {
		if _, ok := e.entry.cells[cell]; !ok {
			e.entry.cells[cell] = n
		}
	}
	return n
}

func heapCell(sort string) string { return "Mem_" + sortKey(sort) }

func (e *enc) heap(st *State, sort string) string {
	return e.get(st, heapCell(sort), "(Array Ref "+sort+")")
}

// Memory is split in two families of arrays. Addresses rooted (syntactically) at a PROTECTED
// local variable of this activation -- one whose address never leaves the function except as a
// direct call argument or closure binding -- live in LMem_*; everything else lives in Mem_*.
// A protected address is only ever built from its Alloc, so the choice by term is consistent.
func isLocalTerm(addr string) bool {
	t := addr
	for {
		switch {
		case strings.HasPrefix(t, "(fld "):
			t = t[5:]
		case strings.HasPrefix(t, "(elem "):
			t = t[6:]
		default:
			if !strings.HasPrefix(t, "(alloc (- ") {
				return false
			}
			n := 0
			for _, c := range t[10:] {
				if c < '0' || c > '9' {
					break
				}
				n = n*10 + int(c-'0')
				if n >= 1000000 {
					return false
				}
			}
			return n > 0
		}
	}
}

// localRootID: the allocation number k of a term rooted at (alloc (- k)).
func localRootID(addr string) int {
	i := strings.Index(addr, "(alloc (- ")
	if i < 0 {
		return 0
	}
	n := 0
	for _, c := range addr[i+10:] {
		if c < '0' || c > '9' {
			break
		}
		n = n*10 + int(c-'0')
	}
	return n
}

func memCell(sort, addr string) string {
	if isLocalTerm(addr) {
		return "LMem_" + sortKey(sort)
	}
	return heapCell(sort)
}

func (e *enc) heapAt(st *State, sort, addr string) string {
	return e.get(st, memCell(sort, addr), "(Array Ref "+sort+")")
}

func (e *enc) zeroOf(t types.Type) string {
	switch u := t.Underlying().(type) {
	case *types.Struct:
		si := structSort(t)
		if u.NumFields() == 0 {
			return "mk_" + si.sort
		}
		parts := []string{"mk_" + si.sort}
		for i := 0; i < u.NumFields(); i++ {
			parts = append(parts, e.zeroOf(u.Field(i).Type()))
		}
		e.useStruct(si)
		return "(" + strings.Join(parts, " ") + ")"
	case *types.Array:
		z := e.zeroOf(u.Elem())
		switch z {
		case "0", "false", "0.0":
			return fmt.Sprintf("((as const %s) %s)", sortOf(t), z)
		}
		// cvc5 only accepts literal values in constant arrays: use a named array with an axiom
		n := "zeroarr_" + sortKey(sortOf(t))
		if !e.declared[n] {
			e.declare(n, sortOf(t))
			e.assert(fmt.Sprintf("(forall ((i Int)) (! (= (select %s i) %s) :pattern ((select %s i))))", n, z, n))
		}
		return n
	}
	switch sortOf(t) {
	case "Int":
		return "0"
	case "Bool":
		return "false"
	case "Str":
		return e.strLit("")
	case "Ref":
		return "null"
	case "Slice":
		return "nilslice"
	case "Iface":
		return "inil"
	case "Real":
		return "0.0"
	}
	return "0"
}

func (e *enc) useStruct(si *structInfo) {}

// facts returns type-invariant facts about a value of Go type t; external adds "not one of my
// local allocations" for references.
func (e *enc) facts(term string, t types.Type, external bool) []string {
	var out []string
	switch u := t.Underlying().(type) {
	case *types.Basic:
		if lo, hi, _, ok := intRange(t); ok {
			out = append(out, fmt.Sprintf("(<= %s %s)", numBig(lo), term), fmt.Sprintf("(<= %s %s)", term, numBig(hi)))
		} else if isString(t) {
			out = append(out, fmt.Sprintf("(>= (strlen %s) 0)", term))
		}
	case *types.Slice:
		out = append(out, fmt.Sprintf("(wfslice %s)", term))
		if external {
			out = append(out, fmt.Sprintf("(>= (root (sarr %s)) 0)", term))
		}
	case *types.Pointer, *types.Map, *types.Chan, *types.Signature:
		if external {
			out = append(out, fmt.Sprintf("(>= (root %s) 0)", term))
		}
	case *types.Struct:
		si := structSort(t)
		for i := 0; i < u.NumFields(); i++ {
			out = append(out, e.facts(fmt.Sprintf("(%s %s)", si.fields[i], term), u.Field(i).Type(), external)...)
		}
	}
	return out
}

// loadValue reads a value of type t at address addr.
func (e *enc) loadValue(st *State, addr string, t types.Type) string {
	switch u := t.Underlying().(type) {
	case *types.Struct:
		si := structSort(t)
		if u.NumFields() == 0 {
			return "mk_" + si.sort
		}
		parts := []string{"mk_" + si.sort}
		for i := 0; i < u.NumFields(); i++ {
			parts = append(parts, e.loadValue(st, e.mkFld(addr, fieldID(u.Field(i))), u.Field(i).Type()))
		}
		return "(" + strings.Join(parts, " ") + ")"
	case *types.Array:
		es := sortOf(u.Elem())
		a := e.fresh("arr", sortOf(t))
		if isHeapScalar(es) {
			// total (all indices, also the never-addressed ones outside [0,len)): makes array values
			// canonical, so that load(store(v)) == v and two loads of equal memory are equal
			_ = u.Len()
			e.assert(fmt.Sprintf("(forall ((i Int)) (! (= (select %s i) (select %s (elem %s i))) :pattern ((select %s i))))",
				a, e.heapAt(st, es, addr), addr, a))
		}
		return a
	}
	return fmt.Sprintf("(select %s %s)", e.heapAt(st, sortOf(t), addr), addr)
}

// storeValue writes val of type t at address addr.
func (e *enc) storeValue(st *State, addr, val string, t types.Type) {
	switch u := t.Underlying().(type) {
	case *types.Struct:
		si := structSort(t)
		for i := 0; i < u.NumFields(); i++ {
			e.storeValue(st, e.mkFld(addr, fieldID(u.Field(i))), projField(si, i, val), u.Field(i).Type())
		}
		return
	case *types.Array:
		es := sortOf(u.Elem())
		if !isHeapScalar(es) {
			// array of aggregates: havoc leaf memory conservatively
			ms := newModSet()
			typeLeaves(t, ms.fields, ms.elems)
			if isLocalTerm(addr) {
				// protected local: forget the local memory of the leaf sorts (coarse, sound)
				sorts := map[string]bool{}
				for id := range ms.fields {
					if v := fieldByID[id]; v != nil {
						sorts[sortOf(v.Type())] = true
					}
				}
				for s := range ms.elems {
					sorts[s] = true
				}
				rootID := localRootID(addr)
				for _, s := range sortedKeys(sorts) {
					if isHeapScalar(s) {
						c := "LMem_" + sortKey(s)
						old := e.get(st, c, "(Array Ref "+s+")")
						nw := e.fresh(c+"_arr", "(Array Ref "+s+")")
						// only cells of this very local object are forgotten
						e.assert(fmt.Sprintf("(forall ((r Ref)) (! (or (= (select %s r) (select %s r)) (= (root r) (- %d))) :pattern ((select %s r))))", nw, old, rootID, nw))
						st.cells[c] = nw
					}
				}
				return
			}
			e.havoc(st, ms, "arrstore")
			return
		}
		old := e.heapAt(st, es, addr)
		nw := e.fresh("Mem_"+sortKey(es), "(Array Ref "+es+")")
		e.elemUpdate("true", nw, old, fmt.Sprintf("(= qb %s)", addr), fmt.Sprintf("(select %s qi)", val))
		if isLocalTerm(addr) {
			st.cells[memCell(es, addr)] = nw
		} else {
			e.setHeap(st, es, old, nw, heapUpd{elems: true})
		}
		return
	}
	s := sortOf(t)
	if isLocalTerm(addr) {
		nt := fmt.Sprintf("(store %s %s %s)", e.heapAt(st, s, addr), addr, val)
		if len(nt) > 400 {
			n := e.fresh("LMem_"+sortKey(s)+"_n", "(Array Ref "+s+")")
			e.assert(eq(n, nt))
			nt = n
		}
		st.cells[memCell(s, addr)] = nt
		return
	}
	old := e.heap(st, s)
	e.setHeap(st, s, old, fmt.Sprintf("(store %s %s %s)", old, addr, val), e.updOfAddr(addr))
}

func (e *enc) updOfAddr(addr string) heapUpd {
	if e.elemAddr[addr] {
		return heapUpd{elems: true}
	}
	return updOfAddr(addr)
}

// ---- havoc ---------------------------------------------------------------------------------

type localMods struct {
	cells  map[*ssa.Alloc]bool // scalar locals assigned
	allocs map[*ssa.Alloc]bool // heap locals written
}

// havoc replaces everything in ms by fresh values with frame axioms.
func (e *enc) havoc(st *State, ms *ModSet, tag string) {
	if ms == nil {
		return
	}
	bySort := map[string][]int{}
	for _, id := range sortedInts(ms.fields) {
		s := "Int"
		if v := fieldByID[id]; v != nil {
			s = sortOf(v.Type())
		} else {
			for g, gid := range globalIDs {
				if gid == id {
					s = sortOf(g.Type().Underlying().(*types.Pointer).Elem())
				}
			}
		}
		if !isHeapScalar(s) {
			continue
		}
		bySort[s] = append(bySort[s], id)
	}
	for _, s := range heapSorts {
		cell := heapCell(s)
		whole := ms.all || ms.sorts[s]
		ids := bySort[s]
		el := ms.elems[s]
		if !whole && len(ids) == 0 && !el {
			continue
		}
		old := e.heap(st, s)
		nw := e.fresh(cell+"_"+tag, "(Array Ref "+s+")")
		{
			u := heapUpd{whole: whole, elems: el, fields: map[int]bool{}}
			for _, id := range ids {
				u.fields[id] = true
			}
			e.setHeap(st, s, old, nw, u)
		}
		if whole {
			e.assert(fmt.Sprintf("(forall ((r Ref)) (! (=> (protected r) (= (select %s r) (select %s r))) :pattern ((select %s r))))", nw, old, nw))
			continue
		}
		var exc []string
		if len(ids) > 0 {
			var eqs []string
			for _, id := range ids {
				eqs = append(eqs, fmt.Sprintf("(= (fidx r) %d)", id))
			}
			exc = append(exc, "(and ((_ is fld) r) "+or(eqs...)+")")
		}
		if el {
			exc = append(exc, "((_ is elem) r)")
		}
		e.assert(fmt.Sprintf("(forall ((r Ref)) (! (or (= (select %s r) (select %s r)) (and (not (protected r)) %s)) :pattern ((select %s r))))", nw, old, or(exc...), nw))
	}
	if ms.maps || ms.all {
		for _, c := range sortedKeys(st.cells) {
			if strings.HasPrefix(c, "MapD_") || strings.HasPrefix(c, "MapV_") {
				st.cells[c] = e.fresh(c+"_"+tag, e.mapCellSort(c))
			}
		}
		e.mapEpoch++
	}
	if ms.storeMut || ms.all {
		e.havocStores(st, tag)
	} else if ms.storeAdd {
		// additive store effect: keys may be created (or rewritten), never removed
		c, _ := e.storeCell("exists")
		old := e.get(st, c, e.cellSortOf[c])
		e.havocStores(st, tag)
		nw := st.cells[c]
		e.assert(fmt.Sprintf("(forall ((s Iface) (k Str)) (! (=> (select (select %s s) k) (select (select %s s) k)) :pattern ((select (select %s s) k))))", old, nw, nw))
	}
}

// ---- values --------------------------------------------------------------------------------

func (e *enc) constTerm(c *ssa.Const) string {
	t := c.Type()
	if c.Value == nil {
		return e.zeroOf(t)
	}
	switch c.Value.Kind() {
	case constant.Bool:
		if constant.BoolVal(c.Value) {
			return "true"
		}
		return "false"
	case constant.String:
		return e.strLit(constant.StringVal(c.Value))
	case constant.Int:
		if isFloat(t) {
			return constant.ToInt(c.Value).ExactString() + ".0"
		}
		s := c.Value.ExactString()
		if strings.HasPrefix(s, "-") {
			return "(- " + s[1:] + ")"
		}
		return s
	case constant.Float:
		if isInteger(t) {
			s := constant.ToInt(c.Value).ExactString()
			if strings.HasPrefix(s, "-") {
				return "(- " + s[1:] + ")"
			}
			return s
		}
		f, _ := constant.Float64Val(c.Value)
		s := fmt.Sprintf("%f", f)
		if strings.HasPrefix(s, "-") {
			return "(- " + s[1:] + ")"
		}
		return s
	}
	return e.fresh("const", sortOf(t))
}

func (e *enc) val(v ssa.Value) string {
	ts := e.valN(v)
	if len(ts) != 1 {
		panic(fmt.Sprintf("value %s (%T) has %d components", v.Name(), v, len(ts)))
	}
	return ts[0]
}

func (e *enc) valN(v ssa.Value) []string {
	if ts, ok := e.vals[v]; ok {
		return ts
	}
	switch x := v.(type) {
	case *ssa.Const:
		return []string{e.constTerm(x)}
	case *ssa.Global:
		t := fmt.Sprintf("(fld gbase %d)", globalID(x))
		e.declare("gbase", "Ref")
		e.assertOnce("(= (root gbase) 0)")
		e.assertOnce(fmt.Sprintf("(= (root %s) 0)", t))
		return []string{t}
	case *ssa.Function:
		n := "fn_" + sanitize(x.String())
		e.declare(n, "Ref")
		e.assertOnce(fmt.Sprintf("(not (= %s null))", n))
		return []string{n}
	case *ssa.Builtin:
		return []string{"null"}
	case *ssa.Alloc:
		if r, ok := e.allocRef[x]; ok {
			return []string{r}
		}
		panic("address of scalar local used as value: " + x.Comment)
	}
	panic(fmt.Sprintf("no term for value %s = %v (%T) in %s", v.Name(), v, v, e.qn))
}

func (e *enc) setVal(v ssa.Value, t string) {
	if len(t) > 80 {
		n := e.fresh("v_"+v.Name(), sortOf(v.Type()))
		e.assert(eq(n, t))
		t = n
	}
	e.vals[v] = []string{t}
}

// ---- analysis: allocs, loops, order --------------------------------------------------------

func (e *enc) classifyAllocs() {
	for _, b := range e.fn.Blocks {
		for _, ins := range b.Instrs {
			a, ok := ins.(*ssa.Alloc)
			if !ok {
				continue
			}
			scalar := !a.Heap || true
			for _, r := range *a.Referrers() {
				switch u := r.(type) {
				case *ssa.UnOp:
					if !(u.Op == token.MUL && u.X == a) {
						scalar = false
					}
				case *ssa.Store:
					if u.Addr != a || u.Val == a {
						scalar = false
					}
				case *ssa.DebugRef:
				default:
					scalar = false
				}
			}
			// aggregates accessed by field/index address are never scalar (caught above)
			e.scalar[a] = scalar
		}
	}
}

func (e *enc) findLoops() {
	for _, b := range e.fn.Blocks {
		for _, s := range b.Succs {
			if s.Dominates(b) {
				e.backEdge[[2]*ssa.BasicBlock{b, s}] = true
				li := e.loops[s]
				if li == nil {
					li = &loopInfo{header: s, blocks: map[*ssa.BasicBlock]bool{s: true}}
					e.loops[s] = li
				}
				li.latches = append(li.latches, b)
				// natural loop: nodes that reach b without passing s
				var stack []*ssa.BasicBlock
				if !li.blocks[b] {
					li.blocks[b] = true
					stack = append(stack, b)
				}
				for len(stack) > 0 {
					n := stack[len(stack)-1]
					stack = stack[:len(stack)-1]
					for _, pr := range n.Preds {
						if !li.blocks[pr] {
							li.blocks[pr] = true
							stack = append(stack, pr)
						}
					}
				}
			}
		}
	}
	var hs []*ssa.BasicBlock
	for h := range e.loops {
		hs = append(hs, h)
	}
	// ordinal by source position of the loop statement (fallback: block index)
	sort.Slice(hs, func(i, j int) bool { return e.loopPos(hs[i]) < e.loopPos(hs[j]) })
	for i, h := range hs {
		e.loops[h].ordinal = i + 1
	}
}

func (e *enc) loopPos(h *ssa.BasicBlock) int {
	// smallest valid position of any instruction in the loop
	best := int(^uint(0) >> 1)
	for b := range e.loops[h].blocks {
		for _, ins := range b.Instrs {
			if p := ins.Pos(); p.IsValid() && int(p) < best {
				best = int(p)
			}
		}
	}
	if best == int(^uint(0)>>1) {
		return h.Index
	}
	return best
}

func (e *enc) computeOrder() {
	seen := map[*ssa.BasicBlock]bool{}
	var post []*ssa.BasicBlock
	var dfs func(b *ssa.BasicBlock)
	dfs = func(b *ssa.BasicBlock) {
		seen[b] = true
		for _, s := range b.Succs {
			if e.backEdge[[2]*ssa.BasicBlock{b, s}] || seen[s] {
				continue
			}
			dfs(s)
		}
		post = append(post, b)
	}
	dfs(e.fn.Blocks[0])
	for i := len(post) - 1; i >= 0; i-- {
		e.order = append(e.order, post[i])
	}
}

// regionMods: what a set of blocks may modify (heap summary + local cells).
func (e *enc) regionMods(blocks map[*ssa.BasicBlock]bool) (*ModSet, *localMods) {
	ms := newModSet()
	lm := &localMods{cells: map[*ssa.Alloc]bool{}, allocs: map[*ssa.Alloc]bool{}}
	var bs []*ssa.BasicBlock
	for b := range blocks {
		bs = append(bs, b)
	}
	sort.Slice(bs, func(i, j int) bool { return bs[i].Index < bs[j].Index })
	for _, b := range bs {
		for _, ins := range b.Instrs {
			e.p.instrMods(ms, ins)
			switch x := ins.(type) {
			case *ssa.Alloc:
				if e.scalar[x] {
					lm.cells[x] = true
				} else {
					lm.allocs[x] = true
				}
			case *ssa.Store:
				if a, ok := stripVal(x.Addr).(*ssa.Alloc); ok {
					if e.scalar[a] {
						lm.cells[a] = true
					} else {
						lm.allocs[a] = true
					}
				} else {
					e.rootAllocs(x.Addr, lm)
				}
			case *ssa.Call:
				e.callLocalMods(&x.Call, lm)
			case *ssa.Defer:
				e.callLocalMods(&x.Call, lm)
			case *ssa.Go:
				e.callLocalMods(&x.Call, lm)
			case *ssa.MakeClosure:
				// closures created here may be invoked by callees; handled at the call
			}
		}
	}
	return ms, lm
}

// rootAllocs: a store through FieldAddr/IndexAddr chains rooted at a heap local.
func (e *enc) rootAllocs(addr ssa.Value, lm *localMods) {
	for {
		switch a := stripVal(addr).(type) {
		case *ssa.FieldAddr:
			addr = a.X
			continue
		case *ssa.IndexAddr:
			addr = a.X
			continue
		case *ssa.Alloc:
			if !e.scalar[a] {
				lm.allocs[a] = true
			}
		}
		return
	}
}

// callLocalMods: heap locals whose address is passed to (or captured by a closure passed to) a call.
func (e *enc) callLocalMods(c *ssa.CallCommon, lm *localMods) {
	var visit func(v ssa.Value, depth int)
	visit = func(v ssa.Value, depth int) {
		if depth > 4 {
			return
		}
		switch x := stripVal(v).(type) {
		case *ssa.Alloc:
			if !e.scalar[x] {
				lm.allocs[x] = true
			}
		case *ssa.MakeClosure:
			// only captured variables the closure may write (directly, or by handing their address
			// to a callee) are affected by calling it
			var cm *ModSet
			if cf, ok := x.Fn.(*ssa.Function); ok {
				cm = e.p.mods[cf]
			}
			for i, b := range x.Bindings {
				if cm == nil || cm.all || cm.freeVars[i] {
					visit(b, depth+1)
				}
			}
		case *ssa.FieldAddr:
			visit(x.X, depth+1)
		case *ssa.IndexAddr:
			visit(x.X, depth+1)
		case *ssa.MakeInterface:
			visit(x.X, depth+1)
		case *ssa.Slice:
			visit(x.X, depth+1)
		case *ssa.UnOp:
			if x.Op == token.MUL {
				if a, ok := x.X.(*ssa.Alloc); ok {
					// a local holding a closure: follow its single store
					for _, r := range *a.Referrers() {
						if s, ok := r.(*ssa.Store); ok && s.Addr == a {
							if _, isC := s.Val.(*ssa.MakeClosure); isC {
								visit(s.Val, depth+1)
							}
						}
					}
				}
			}
		}
	}
	visit(c.Value, 0)
	for _, a := range c.Args {
		visit(a, 0)
	}
}

func (e *enc) cellName(a *ssa.Alloc) string {
	// unique per alloc: name + position-independent ordinal
	return fmt.Sprintf("L_%s_%s", sanitize(a.Comment), strings.TrimPrefix(a.Name(), "t"))
}

// havocLocals havocs local cells / heap locals.
func (e *enc) havocLocals(st *State, lm *localMods, tag string) {
	var cs []*ssa.Alloc
	for a := range lm.cells {
		cs = append(cs, a)
	}
	sort.Slice(cs, func(i, j int) bool { return cs[i].Name() < cs[j].Name() })
	for _, a := range cs {
		t := a.Type().Underlying().(*types.Pointer).Elem()
		n := e.fresh(e.cellName(a)+"_"+tag, sortOf(t))
		e.cellSortOf[e.cellName(a)] = sortOf(t)
		st.cells[e.cellName(a)] = n
		if a.Comment == "rangeindex" {
			// built by the SSA builder: initialised to -1 and only ever incremented
			e.assume(fmt.Sprintf("(>= %s (- 1))", n))
		}
		e.assumeAll(e.facts(n, t, false))
	}
	var as []*ssa.Alloc
	for a := range lm.allocs {
		as = append(as, a)
	}
	sort.Slice(as, func(i, j int) bool { return as[i].Name() < as[j].Name() })
	for _, a := range as {
		ref, ok := e.allocRef[a]
		if !ok {
			continue // allocated inside the region; zero-initialised when executed
		}
		t := a.Type().Underlying().(*types.Pointer).Elem()
		e.havocAt(st, ref, t, tag)
	}
}

// havocAt writes fresh values into the memory of a value of type t at ref.
func (e *enc) havocAt(st *State, ref string, t types.Type, tag string) {
	switch u := t.Underlying().(type) {
	case *types.Struct:
		for i := 0; i < u.NumFields(); i++ {
			e.havocAt(st, e.mkFld(ref, fieldID(u.Field(i))), u.Field(i).Type(), tag)
		}
	case *types.Array:
		es := sortOf(u.Elem())
		if isHeapScalar(es) {
			a := e.fresh("arrh", sortOf(t))
			e.storeValue(st, ref, a, t)
		}
	default:
		n := e.fresh("h_"+tag, sortOf(t))
		e.storeValue(st, ref, n, t)
	}
}

// ---- main driver ---------------------------------------------------------------------------

func (e *enc) run() {
	fn := e.fn
	if len(fn.Blocks) == 0 {
		e.out.Errors = append(e.out.Errors, "no body")
		return
	}
	e.classifyAllocs()
	e.findLoops()
	e.computeOrder()

	st := &State{cells: map[string]string{}}
	e.entry = st
	e.reach = "true"
	// parameters
	for i, par := range fn.Params {
		n := "p_" + sanitize(par.Name())
		if par.Name() == "_" || par.Name() == "" {
			n = fmt.Sprintf("p_anon%d", i)
		}
		e.declare(n, sortOf(par.Type()))
		e.vals[par] = []string{n}
		e.out.ModelVars = append(e.out.ModelVars, n)
		e.assumeAll(e.facts(n, par.Type(), true))
		if i == 0 && fn.Signature.Recv() != nil {
			if _, isPtr := par.Type().Underlying().(*types.Pointer); isPtr {
				e.assume(fmt.Sprintf("(not (= %s null))", n))
				e.note("receiver assumed non-nil")
			}
		}
	}
	for _, fv := range fn.FreeVars {
		n := "fv_" + sanitize(fv.Name())
		e.declare(n, "Ref")
		e.vals[fv] = []string{n}
		e.assume(fmt.Sprintf("(not (= %s null))", n))
		e.assume(fmt.Sprintf("(>= (root %s) 0)", n))
		// a captured variable is a cell of its own (never a field or an element of another object)
		e.assume(fmt.Sprintf("((_ is alloc) %s)", n))
	}
	if len(fn.FreeVars) > 1 {
		// captured variables are distinct variables of the enclosing function: their cells do not alias
		names := make([]string, 0, len(fn.FreeVars))
		seen := map[string]bool{}
		for _, fv := range fn.FreeVars {
			if n := "fv_" + sanitize(fv.Name()); !seen[n] {
				seen[n] = true
				names = append(names, n)
			}
		}
		if len(names) > 1 {
			e.assume("(distinct " + strings.Join(names, " ") + ")")
		}
	}
	e.entry = st.clone()
	entrySnapshot := e.entry
	// contract: ghosts, requires
	if e.c != nil {
		env := e.envFor(st, entrySnapshot)
		for _, g := range e.c.ghosts {
			v := e.evalSpec(g.expr, env)
			e.ghost[g.name] = v
		}
		for i, r := range e.c.requires {
			v := e.evalBool(r.expr, env, fmt.Sprintf("requires %s", clauseKey(r, i)))
			e.assume(v)
		}
		for _, r := range e.c.assumes {
			v := e.evalBool(r.expr, env, "assume")
			e.assume(v)
			e.note("assumed (unchecked) entry condition: " + r.text)
		}
		if len(e.c.requires) > 0 {
			o := &Obligation{Name: e.qn + "#vacuity:requires", Func: e.qn, Class: "vacuity", Key: "requires", Goal: "false", Guard: "true",
				NAsserts: len(e.out.Asserts), WantSat: true, Text: "preconditions are satisfiable"}
			e.out.Obls = append(e.out.Obls, o)
		}
	}
	if e.c != nil {
		// receive flags exist (false) from the entry, also when the function has no such receive site
		var sites []string
		for site := range e.c.calls {
			if strings.HasPrefix(site, "recv:") {
				sites = append(sites, site)
			}
		}
		sort.Strings(sites)
		for _, site := range sites {
			for _, cc := range e.c.calls[site] {
				if cc.kind == "flag" {
					gc := e.ghostCellFor(cc.name, SVal{sort: "Bool"})
					e.declare(gc.cell+"_0", "Bool")
					e.assertOnce("(not " + gc.cell + "_0)")
				}
			}
		}
	}
	if e.c != nil && len(e.c.only) > 0 {
		counts := e.siteCounts()
		keys := make([]string, 0, len(e.c.only))
		for k := range e.c.only {
			keys = append(keys, k)
		}
		sort.Strings(keys)
		for _, k := range keys {
			goal := "false"
			if counts[k] == e.c.only[k] {
				goal = "true"
			}
			e.oblige("frame", "sites:"+k, goal, token.NoPos, fmt.Sprintf("exactly %d site(s) of %s in this function (found %d)", e.c.only[k], k, counts[k]))
		}
	}
	// the entry snapshot must see lazily created initial cells: share map
	e.entry = entrySnapshot

	for _, b := range e.order {
		e.block(b, st)
	}
	e.exit()
}

func (e *enc) block(b *ssa.BasicBlock, entrySt *State) {
	e.cur = b
	var st *State
	if b == e.fn.Blocks[0] {
		st = entrySt
		e.reach = "true"
	} else {
		st = e.mergePreds(b)
		if st == nil {
			return // unreachable
		}
	}
	if li := e.loops[b]; li != nil {
		e.loopHead(li, st)
	}
	for _, ins := range b.Instrs {
		e.instr(b, st, ins)
	}
	e.blockOut[b] = st
	e.reachOut[b] = e.reach
}

// mergePreds builds the entry state of b from its forward predecessors.
func (e *enc) mergePreds(b *ssa.BasicBlock) *State {
	type inc struct {
		cond string
		st   *State
		pred *ssa.BasicBlock
	}
	var ins []inc
	for _, pr := range b.Preds {
		if e.backEdge[[2]*ssa.BasicBlock{pr, b}] {
			continue
		}
		ps, ok := e.blockOut[pr]
		if !ok {
			continue
		}
		c := and(e.reachOut[pr], e.edgeCond[[2]*ssa.BasicBlock{pr, b}])
		ins = append(ins, inc{c, ps, pr})
	}
	if len(ins) == 0 {
		return nil
	}
	rn := fmt.Sprintf("reach_b%d", b.Index)
	e.declare(rn, "Bool")
	var cs []string
	for i := range ins {
		// name each edge so phi nodes can use it
		en := fmt.Sprintf("edge_b%d_b%d", ins[i].pred.Index, b.Index)
		e.declare(en, "Bool")
		e.assert(eq(en, ins[i].cond))
		ins[i].cond = en
		e.edgeCond[[2]*ssa.BasicBlock{ins[i].pred, b}] = en
		cs = append(cs, en)
	}
	e.assert(eq(rn, or(cs...)))
	e.reach = rn
	if len(ins) == 1 {
		return ins[0].st.clone()
	}
	st := &State{cells: map[string]string{}}
	names := map[string]bool{}
	for _, in := range ins {
		for k := range in.st.cells {
			names[k] = true
		}
	}
	for _, k := range sortedKeys(names) {
		same := true
		first := ""
		for i, in := range ins {
			t, ok := in.st.cells[k]
			if !ok {
				t = e.initialFor(k, in.st)
			}
			if i == 0 {
				first = t
			} else if t != first {
				same = false
			}
		}
		if same {
			st.cells[k] = first
			continue
		}
		srt := e.cellSort(k)
		n := e.fresh(fmt.Sprintf("%s_b%d", k, b.Index), srt)
		for _, in := range ins {
			t, ok := in.st.cells[k]
			if !ok {
				t = e.initialFor(k, in.st)
			}
			e.assert(implies(in.cond, eq(n, t)))
		}
		st.cells[k] = n
	}
	return st
}

func (e *enc) initialFor(cell string, st *State) string {
	return e.get(st, cell, e.cellSort(cell))
}

var cellSorts = map[string]string{}

func (e *enc) cellSort(cell string) string {
	if strings.HasPrefix(cell, "Mem_") || strings.HasPrefix(cell, "LMem_") {
		for _, s := range heapSorts {
			if heapCell(s) == strings.TrimPrefix(cell, "L") {
				return "(Array Ref " + s + ")"
			}
		}
	}
	if s, ok := e.cellSortOf[cell]; ok {
		return s
	}
	panic("unknown cell sort: " + cell)
}

// ---- loops ---------------------------------------------------------------------------------

func (e *enc) loopContract(li *loopInfo) *LoopContract {
	if e.c == nil {
		return nil
	}
	return e.c.loops[li.ordinal]
}

func (e *enc) loopHead(li *loopInfo, st *State) {
	lc := e.loopContract(li)
	tag := fmt.Sprintf("L%d", li.ordinal)
	if lc != nil {
		env := e.envFor(st, e.entry)
		for i, inv := range lc.invariants {
			g, ok := e.invEval(inv, env)
			if !ok {
				continue
			}
			e.oblige("inv-init", fmt.Sprintf("%s:%s", tag, clauseKey(inv, i)), g, token.NoPos, inv.text)
		}
	}
	ms, lm := e.regionMods(li.blocks)
	e.havoc(st, ms, tag)
	e.havocLocals(st, lm, tag)
	if ms.sync {
		e.havoc(st, e.volatile, tag+"v")
	}
	// ghost cells bound at call sites inside the loop
	if e.c != nil {
		for _, b := range sortedBlocks(li.blocks) {
			for _, ins := range b.Instrs {
				var cc *ssa.CallCommon
				switch x := ins.(type) {
				case *ssa.Call:
					cc = &x.Call
				case *ssa.Defer:
					cc = &x.Call
				}
				if cc == nil {
					continue
				}
				short := e.calleeShort(cc)
				thisSite := fmt.Sprintf("%s#%d", short, e.siteOrdinal(ins, short))
				for site, clauses := range e.c.calls {
					if site != thisSite {
						continue
					}
					for _, cl := range clauses {
						if cl.kind != "bind" {
							continue
						}
						// (cells are known from the first encoding pass, see encodeFunc)
						if gc, ok := e.ghostCells[cl.name]; ok {
							st.cells[gc.cell] = e.fresh(gc.cell+"_"+tag, gc.sort)
							st.cells[gc.cell+"_set"] = e.fresh(gc.cell+"_set_"+tag, "Bool")
						}
					}
				}
			}
		}
	}
	if e.c != nil {
		hv := func(name string) {
			if gc, ok := e.ghostCells[name]; ok {
				st.cells[gc.cell] = e.fresh(gc.cell+"_"+tag, gc.sort)
				if _, has := e.ghostCells[name+"_set"]; has {
					st.cells[gc.cell+"_set"] = e.fresh(gc.cell+"_set_"+tag, "Bool")
				}
			}
		}
		for _, b := range sortedBlocks(li.blocks) {
			for _, ins := range b.Instrs {
				switch x := ins.(type) {
				case *ssa.Send:
					name := e.valText(x.Chan)
					if cell, ok := e.sentCounters[name]; ok {
						st.cells[cell] = e.fresh(cell+"_"+tag, "Int")
					}
					for _, cl := range e.c.calls[fmt.Sprintf("send:%s#%d", name, e.sendOrdinal(x.Pos(), name))] {
						if cl.kind == "bind" {
							hv(cl.name)
						}
					}
				case *ssa.UnOp:
					if x.Op == token.ARROW {
						if cell, ok := e.sentCounters["<-"+e.valText(x.X)]; ok {
							st.cells[cell] = e.fresh(cell+"_"+tag, "Int")
						}
						for _, cl := range e.c.calls["recv:"+e.valText(x.X)] {
							if cl.kind == "flag" {
								hv(cl.name)
							}
						}
					}
				case *ssa.Select:
					for _, s := range x.States {
						name := e.valText(s.Chan)
						if s.Dir == types.RecvOnly {
							if cell, ok := e.sentCounters["<-"+name]; ok {
								st.cells[cell] = e.fresh(cell+"_"+tag, "Int")
							}
							for _, cl := range e.c.calls["recv:"+name] {
								if cl.kind == "flag" {
									hv(cl.name)
								}
							}
						} else {
							if cell, ok := e.sentCounters[name]; ok {
								st.cells[cell] = e.fresh(cell+"_"+tag, "Int")
							}
							for _, cl := range e.c.calls[fmt.Sprintf("send:%s#%d", name, e.sendOrdinal(s.Pos, name))] {
								if cl.kind == "bind" {
									hv(cl.name)
								}
							}
						}
					}
				}
			}
		}
	}
	li.hstate = st.clone()
	if lc != nil {
		env := e.envFor(st, e.entry)
		for _, inv := range lc.invariants {
			if g, ok := e.invEval(inv, env); ok {
				e.assume(g)
			}
		}
		if lc.decreases != nil {
			v := e.evalSpec(lc.decreases.expr, env)
			n := e.fresh("variant_"+tag, "Int")
			e.assert(eq(n, v.t))
			li.variant = n
		}
	}
}

// invEval evaluates a loop invariant. In the first encoding pass ghost cells bound later in the
// function are not known yet: such invariants are skipped there (the second pass has them).
func (e *enc) invEval(inv *Clause, env *Env) (string, bool) {
	if e.firstPass {
		return e.tryEvalBool(inv.expr, env, "loop invariant")
	}
	return e.evalBool(inv.expr, env, "loop invariant"), true
}

// latch checks invariant preservation on back edges from b.
func (e *enc) latch(b *ssa.BasicBlock, st *State, cond string, h *ssa.BasicBlock) {
	li := e.loops[h]
	lc := e.loopContract(li)
	if lc == nil {
		return
	}
	saved := e.reach
	e.reach = and(e.reach, cond)
	tag := fmt.Sprintf("L%d", li.ordinal)
	env := e.envFor(st, e.entry)
	for i, inv := range lc.invariants {
		g, ok := e.invEval(inv, env)
		if !ok {
			continue
		}
		e.oblige("inv-pres", fmt.Sprintf("%s:%s", tag, clauseKey(inv, i)), g, token.NoPos, inv.text)
	}
	if len(lc.steps) > 0 && li.hstate != nil {
		senv := e.envFor(st, e.entry)
		senv.prev = li.hstate
		senv.loop = li
		for i, sc := range lc.steps {
			if g, ok := e.tryEvalBool(sc.expr, senv, "loop step"); ok {
				e.oblige("inv-pres", fmt.Sprintf("%s:step:%s", tag, clauseKey(sc, i)), g, token.NoPos, sc.text)
			} else if !e.firstPass {
				panic("loop step clause refers to an unknown identifier: " + sc.text)
			}
		}
	}
	if lc.decreases != nil && li.variant != "" {
		v := e.evalSpec(lc.decreases.expr, env)
		e.oblige("variant", tag, fmt.Sprintf("(and (>= %s 0) (< %s %s))", li.variant, v.t, li.variant), token.NoPos, lc.decreases.text)
	}
	e.reach = saved
}

// ---- exit ----------------------------------------------------------------------------------

func (e *enc) exit() {
	if len(e.retStates) == 0 {
		return
	}
	e.cur = nil
	// merge return states
	var st *State
	var rvals []string
	nres := e.fn.Signature.Results().Len()
	if len(e.retStates) == 1 {
		st = e.retStates[0].st
		e.reach = e.retStates[0].reach
		rvals = e.retStates[0].vals
	} else {
		st = &State{cells: map[string]string{}}
		names := map[string]bool{}
		var conds []string
		for i := range e.retStates {
			for k := range e.retStates[i].st.cells {
				names[k] = true
			}
			cn := fmt.Sprintf("ret_%d", i)
			e.declare(cn, "Bool")
			e.assert(eq(cn, e.retStates[i].reach))
			e.retStates[i].reach = cn
			conds = append(conds, cn)
		}
		e.declare("reach_exit", "Bool")
		e.assert(eq("reach_exit", or(conds...)))
		e.reach = "reach_exit"
		for _, k := range sortedKeys(names) {
			same, first := true, ""
			for i, r := range e.retStates {
				t, ok := r.st.cells[k]
				if !ok {
					t = e.initialFor(k, r.st)
				}
				if i == 0 {
					first = t
				} else if t != first {
					same = false
				}
			}
			if same {
				st.cells[k] = first
				continue
			}
			n := e.fresh(k+"_exit", e.cellSort(k))
			for _, r := range e.retStates {
				t, ok := r.st.cells[k]
				if !ok {
					t = e.initialFor(k, r.st)
				}
				e.assert(implies(r.reach, eq(n, t)))
			}
			st.cells[k] = n
		}
		for j := 0; j < nres; j++ {
			n := e.fresh(fmt.Sprintf("result%d", j), sortOf(e.fn.Signature.Results().At(j).Type()))
			for _, r := range e.retStates {
				e.assert(implies(r.reach, eq(n, r.vals[j])))
			}
			rvals = append(rvals, n)
		}
	}
	for j := 0; j < nres; j++ {
		if !strings.HasPrefix(rvals[j], "result") {
			n := e.fresh(fmt.Sprintf("result%d", j), sortOf(e.fn.Signature.Results().At(j).Type()))
			e.assert(eq(n, rvals[j]))
			rvals[j] = n
		}
		e.out.ModelVars = append(e.out.ModelVars, rvals[j])
	}
	if e.c == nil {
		return
	}
	env := e.envFor(st, e.entry)
	res := e.fn.Signature.Results()
	for j := 0; j < nres; j++ {
		sv := SVal{t: rvals[j], typ: res.At(j).Type(), sort: sortOf(res.At(j).Type())}
		env.bound[fmt.Sprintf("ret%d", j)] = sv
		if nm := res.At(j).Name(); nm != "" && nm != "_" {
			env.bound[nm] = sv
		}
		if nres == 1 {
			env.bound["result"] = sv
		}
	}
	for i, en := range e.c.ensures {
		g := e.evalBool(en.expr, env, "ensures")
		e.oblige("post", clauseKey(en, i), g, token.NoPos, en.text)
	}
}

// ---- sent(<chan>): ghost count of the values this activation has sent on a channel ---------------------
// The channel is named as in "send <chan>#k" clauses. The counter is 0 at entry, goes up by one at every send
// on that channel (in a select: when that case is the one taken) and is forgotten at the head of every loop
// that sends on it, like any other cell the loop writes. Counters exist for the names the contract mentions.
var reSent = regexp.MustCompile(`\b(sent|rcvd)\(([\w.]+)\)`)

func (e *enc) registerSentCounters() {
	e.sentCounters = map[string]string{}
	if e.c == nil {
		return
	}
	scan := func(text string) {
		for _, m := range reSent.FindAllStringSubmatch(text, -1) {
			name := m[2]
			if m[1] == "rcvd" {
				name = "<-" + name
			}
			if _, ok := e.sentCounters[name]; ok {
				continue
			}
			cell := "G_" + m[1] + "_" + sanitize(m[2])
			e.sentCounters[name] = cell
			e.cellSortOf[cell] = "Int"
			e.declare(cell+"_0", "Int")
			e.assertOnce("(= " + cell + "_0 0)")
		}
	}
	for _, cl := range e.c.requires {
		scan(cl.text)
	}
	for _, cl := range e.c.ensures {
		scan(cl.text)
	}
	for _, lc := range e.c.loops {
		for _, cl := range lc.invariants {
			scan(cl.text)
		}
		for _, cl := range lc.steps {
			scan(cl.text)
		}
	}
	for _, ccs := range e.c.calls {
		for _, cc := range ccs {
			scan(cc.text)
		}
	}
}

// countSend: cond == "" for a plain send, else the condition under which the send happens (select case taken).
// countRecv: the same for values received (rcvd(<chan>)); kept under the name "<-chan" in the same table.
func (e *enc) countRecv(st *State, ch ssa.Value, cond string) {
	e.countChan(st, "<-"+e.valText(ch), cond)
}

func (e *enc) countSend(st *State, ch ssa.Value, cond string) {
	e.countChan(st, e.valText(ch), cond)
}

func (e *enc) countChan(st *State, name string, cond string) {
	cell, ok := e.sentCounters[name]
	if !ok {
		return
	}
	old := e.get(st, cell, "Int")
	if cond == "" {
		st.cells[cell] = fmt.Sprintf("(+ %s 1)", old)
	} else {
		st.cells[cell] = fmt.Sprintf("(ite %s (+ %s 1) %s)", cond, old, old)
	}
}
