package main

import (
	"flag"
	"fmt"
	"os"
	"path/filepath"
	"sort"
	"strings"
	"sync"
	"time"

	"golang.org/x/tools/go/ssa"
)

type OblResult struct {
	Obl *Obligation
	VC  *FuncVC
	Res Result
}

// verdict: discharged | refuted | undecided | vacuous
func (r *OblResult) verdict() string {
	if r.Obl.WantSat {
		if r.Res.Status == "unsat" {
			return "vacuous"
		}
		return "discharged"
	}
	switch r.Res.Status {
	case "unsat":
		return "discharged"
	case "sat":
		return "refuted"
	case "error":
		return "ENGINE-ERROR"
	}
	return "undecided"
}

func verifyFuncs(p *Program, fns []*ssa.Function, r *Runner, verbose bool) ([]*FuncVC, []*OblResult) {
	var vcs []*FuncVC
	for _, fn := range fns {
		vcs = append(vcs, p.encodeFunc(fn))
	}
	var jobs []*OblResult
	for _, vc := range vcs {
		for _, o := range vc.Obls {
			jobs = append(jobs, &OblResult{Obl: o, VC: vc})
		}
	}
	var wg sync.WaitGroup
	sem := make(chan struct{}, 16)
	for _, j := range jobs {
		j := j
		wg.Add(1)
		sem <- struct{}{}
		go func() {
			defer wg.Done()
			defer func() { <-sem }()
			j.Res = r.solve(j.VC, j.Obl)
		}()
	}
	wg.Wait()
	return vcs, jobs
}

func resolveFuncs(p *Program, names []string) ([]*ssa.Function, error) {
	var out []*ssa.Function
	for _, n := range names {
		n = strings.TrimSpace(n)
		if n == "" {
			continue
		}
		if strings.HasSuffix(n, "*") {
			pre := strings.TrimSuffix(n, "*")
			var ks []string
			for k := range p.funcs {
				if strings.HasPrefix(k, pre) {
					ks = append(ks, k)
				}
			}
			sort.Strings(ks)
			for _, k := range ks {
				out = append(out, p.funcs[k])
			}
			continue
		}
		fn, ok := p.funcs[n]
		if !ok {
			return nil, fmt.Errorf("function %q not found in the loaded packages", n)
		}
		out = append(out, fn)
	}
	return out, nil
}

func main() {
	if len(os.Args) < 2 {
		fmt.Fprintln(os.Stderr, "usage: govc verify|check|lock|list ...")
		os.Exit(2)
	}
	switch os.Args[1] {
	case "verify":
		cmdVerify(os.Args[2:])
	case "check", "lock":
		cmdCheck(os.Args[1], os.Args[2:])
	case "list":
		cmdList(os.Args[2:])
	case "mods":
		cmdMods(os.Args[2:])
	default:
		fmt.Fprintln(os.Stderr, "unknown command", os.Args[1])
		os.Exit(2)
	}
}

func cmdList(args []string) {
	fs := flag.NewFlagSet("list", flag.ExitOnError)
	repo := fs.String("repo", "/repo", "repository root")
	pkgs := fs.String("pkgs", "./pkg/cafs", "package patterns")
	fs.Parse(args)
	p, err := loadProgram(*repo, strings.Split(*pkgs, ","))
	if err != nil {
		fmt.Fprintln(os.Stderr, err)
		os.Exit(2)
	}
	for _, k := range sortedKeys(p.funcs) {
		fmt.Println(k)
	}
}

func cmdVerify(args []string) {
	fs := flag.NewFlagSet("verify", flag.ExitOnError)
	repo := fs.String("repo", "/repo", "repository root")
	pkgs := fs.String("pkgs", "./pkg/cafs", "package patterns (comma separated)")
	funcs := fs.String("funcs", "", "functions (comma separated qualified names)")
	theory := fs.String("theory", "/verif/theory", "extern spec directory")
	timeout := fs.Int("timeout", 10, "per-solver timeout in seconds")
	dump := fs.String("dump", "", "directory to dump SMT queries of non-discharged obligations")
	dumpAll := fs.Bool("dumpall", false, "dump every query")
	thorough := fs.Bool("thorough", false, "run all solvers to completion")
	only := fs.String("only", "", "only obligations whose name contains this")
	regexPkgs := fs.String("regex", "", "also check the regex clauses of these package names (comma separated)")
	fs.Parse(args)
	t0 := time.Now()
	p, err := loadProgram(*repo, strings.Split(*pkgs, ","))
	if err != nil {
		fmt.Fprintln(os.Stderr, err)
		os.Exit(2)
	}
	fmt.Fprintf(os.Stderr, "packages+ssa %.1fs\n", time.Since(t0).Seconds())
	if err := p.loadContracts(*theory); err != nil {
		fmt.Fprintln(os.Stderr, err)
		os.Exit(2)
	}
	p.computeMods()
	fmt.Fprintf(os.Stderr, "loaded in %.1fs (%d functions)\n", time.Since(t0).Seconds(), len(p.funcs))
	fns, err := resolveFuncs(p, strings.Split(*funcs, ","))
	if err != nil {
		fmt.Fprintln(os.Stderr, err)
		os.Exit(2)
	}
	r, _ := newRunner(time.Duration(*timeout)*time.Second, *thorough)
	defer r.close()
	vcs, res := verifyFuncs(p, fns, r, true)
	if *regexPkgs != "" {
		rv := regexVCs(p, strings.Split(*regexPkgs, ","))
		var jobs []*OblResult
		for _, vc := range rv {
			for _, o := range vc.Obls {
				jobs = append(jobs, &OblResult{Obl: o, VC: vc})
			}
		}
		solveAll(r, jobs)
		vcs = append(vcs, rv...)
		res = append(res, jobs...)
	}
	for _, vc := range vcs {
		for _, e := range vc.Errors {
			fmt.Printf("ERROR %s: %s\n", vc.Func, e)
		}
	}
	counts := map[string]int{}
	for _, j := range res {
		if *only != "" && !strings.Contains(j.Obl.Name, *only) {
			continue
		}
		v := j.verdict()
		counts[v]++
		fmt.Printf("%-11s %-8s %5.2fs %s   [%s] %s\n", v, j.Res.Solver, j.Res.Secs, j.Obl.Name, j.Obl.Pos, j.Obl.Text)
		if v == "ENGINE-ERROR" {
			fmt.Printf("    solver said: %s\n", trunc(strings.ReplaceAll(j.Res.Output, "\n", " "), 300))
		}
		if v == "refuted" {
			m := strings.TrimSpace(strings.TrimPrefix(strings.TrimSpace(j.Res.Model), "sat"))
			if len(m) > 1500 {
				m = m[:1500] + "..."
			}
			fmt.Printf("    model: %s\n", strings.ReplaceAll(m, "\n", " "))
		}
		if *dump != "" && (v != "discharged" || *dumpAll) {
			os.MkdirAll(*dump, 0o755)
			f := filepath.Join(*dump, sanitize(j.Obl.Name)+".smt2")
			os.WriteFile(f, []byte(queryText(j.VC, j.Obl, true)), 0o644)
		}
	}
	fmt.Printf("summary: %v  wall %.1fs\n", counts, time.Since(t0).Seconds())
}

func cmdMods(args []string) {
	fs := flag.NewFlagSet("mods", flag.ExitOnError)
	repo := fs.String("repo", "/repo", "repository root")
	pkgs := fs.String("pkgs", "./pkg/cafs", "package patterns")
	funcs := fs.String("funcs", "", "functions")
	fs.Parse(args)
	p, err := loadProgram(*repo, strings.Split(*pkgs, ","))
	if err != nil {
		fmt.Fprintln(os.Stderr, err)
		os.Exit(2)
	}
	if err := p.loadContracts("/verif/theory"); err != nil {
		fmt.Fprintln(os.Stderr, err)
		os.Exit(2)
	}
	p.computeMods()
	fns, err := resolveFuncs(p, strings.Split(*funcs, ","))
	if err != nil {
		fmt.Fprintln(os.Stderr, err)
		os.Exit(2)
	}
	for _, fn := range fns {
		fmt.Printf("%s: %s\n", p.qname(fn), p.mods[fn])
		for _, b := range fn.Blocks {
			for _, ins := range b.Instrs {
				ms := newModSet()
				p.instrMods(ms, ins)
				if ms.size() > 0 {
					fmt.Printf("    %-60.60s  %s\n", ins.String(), ms)
				}
			}
		}
	}
}
