package main

import (
	"fmt"
	"go/ast"
	"go/token"
	"go/types"
	"os"
	"path/filepath"
	"sort"
	"strings"

	"golang.org/x/tools/go/packages"
	"golang.org/x/tools/go/ssa"
	"golang.org/x/tools/go/ssa/ssautil"
)

const datamonPrefix = "github.com/oneconcern/datamon"

// Program is everything loaded from /repo's working tree for one run.
type Program struct {
	repo    string
	pkgs    []*packages.Package
	allPkgs map[string]*packages.Package
	prog    *ssa.Program
	fset    *token.FileSet
	funcs   map[string]*ssa.Function // "cafs.(*fsWriter).Write" -> fn
	fnName  map[*ssa.Function]string
	built   map[*ssa.Package]bool
	mutableGlobals map[*ssa.Global]bool // package variables assigned / address-taken outside their init (lazily built)
	spkgs   map[string]*ssa.Package // by package name (last element)

	contracts map[string]*FuncContract // by qualified function name
	preds     map[string]*PredDef      // "cafs.wf"
	specFuns  map[string]*SpecFun      // "cafs.H"
	externs   map[string]*FuncContract // assumed contracts on dependencies / interface methods, key e.g. "storage.Store.Put" or "io.ReadAll"
	contractFiles []string
	regexClauses  []*RegexClause

	mods     map[*ssa.Function]*ModSet
	implCache map[string][]*ssa.Function
	srcCache map[string][]byte
}

func goEnv() []string {
	return append(os.Environ(), "GOFLAGS=-mod=mod", "GOPROXY=off", "GOSUMDB=off", "GOTOOLCHAIN=local")
}

// loadProgram loads the given package patterns (relative to repo) with full syntax and
// builds naive-form SSA for every datamon package in the import closure.
func loadProgram(repo string, patterns []string) (*Program, error) {
	cfg := &packages.Config{
		Mode:  packages.LoadAllSyntax,
		Dir:   repo,
		Env:   goEnv(),
		Tests: false,
	}
	pkgs, err := packages.Load(cfg, patterns...)
	if err != nil {
		return nil, err
	}
	nerr := 0
	packages.Visit(pkgs, nil, func(p *packages.Package) {
		if strings.HasPrefix(p.PkgPath, datamonPrefix) {
			for _, e := range p.Errors {
				fmt.Fprintf(os.Stderr, "load error: %v\n", e)
				nerr++
			}
		}
	})
	if nerr > 0 {
		return nil, fmt.Errorf("%d load errors in datamon packages (the tree does not compile)", nerr)
	}
	prog, _ := ssautil.AllPackages(pkgs, ssa.NaiveForm)
	p := &Program{
		repo: repo, pkgs: pkgs, prog: prog, fset: prog.Fset,
		funcs: map[string]*ssa.Function{}, fnName: map[*ssa.Function]string{},
		built: map[*ssa.Package]bool{}, spkgs: map[string]*ssa.Package{},
		allPkgs:   map[string]*packages.Package{},
		contracts: map[string]*FuncContract{}, preds: map[string]*PredDef{}, specFuns: map[string]*SpecFun{},
		externs: map[string]*FuncContract{},
		mods:    map[*ssa.Function]*ModSet{}, implCache: map[string][]*ssa.Function{}, srcCache: map[string][]byte{},
	}
	packages.Visit(pkgs, nil, func(pk *packages.Package) { p.allPkgs[pk.PkgPath] = pk })
	for _, sp := range prog.AllPackages() {
		if !strings.HasPrefix(sp.Pkg.Path(), datamonPrefix) {
			continue
		}
		sp.Build()
		p.built[sp] = true
		p.spkgs[sp.Pkg.Name()] = sp
		p.indexPackage(sp)
	}
	return p, nil
}

func (p *Program) indexPackage(sp *ssa.Package) {
	var add func(fn *ssa.Function)
	add = func(fn *ssa.Function) {
		if fn == nil || fn.Blocks == nil {
			return
		}
		name := sp.Pkg.Name() + "." + fn.RelString(sp.Pkg)
		if _, dup := p.funcs[name]; dup {
			return
		}
		p.funcs[name] = fn
		p.fnName[fn] = name
		for _, a := range fn.AnonFuncs {
			add(a)
		}
	}
	names := make([]string, 0, len(sp.Members))
	for n := range sp.Members {
		names = append(names, n)
	}
	sort.Strings(names)
	for _, n := range names {
		switch m := sp.Members[n].(type) {
		case *ssa.Function:
			add(m)
		case *ssa.Type:
			t := m.Type()
			for _, tt := range []types.Type{t, types.NewPointer(t)} {
				ms := p.prog.MethodSets.MethodSet(tt)
				for i := 0; i < ms.Len(); i++ {
					fn := p.prog.MethodValue(ms.At(i))
					if fn != nil && fn.Pkg == sp && fn.Synthetic == "" {
						add(fn)
					}
				}
			}
		}
	}
}

func (p *Program) qname(fn *ssa.Function) string {
	if n, ok := p.fnName[fn]; ok {
		return n
	}
	if fn.Pkg != nil {
		return fn.Pkg.Pkg.Name() + "." + fn.RelString(fn.Pkg.Pkg)
	}
	return fn.String()
}

func (p *Program) isDatamon(fn *ssa.Function) bool {
	if fn == nil {
		return false
	}
	pk := fn.Pkg
	if pk == nil && fn.Parent() != nil {
		pk = fn.Parent().Pkg
	}
	if pk == nil {
		// synthetic wrappers / bound methods: look at the object
		if o := fn.Object(); o != nil && o.Pkg() != nil {
			return strings.HasPrefix(o.Pkg().Path(), datamonPrefix)
		}
		return false
	}
	return strings.HasPrefix(pk.Pkg.Path(), datamonPrefix)
}

// source returns the source text between two positions (same file).
func (p *Program) source(from, to token.Pos) string {
	if !from.IsValid() || !to.IsValid() {
		return ""
	}
	pf := p.fset.Position(from)
	pt := p.fset.Position(to)
	b, ok := p.srcCache[pf.Filename]
	if !ok {
		b, _ = os.ReadFile(pf.Filename)
		p.srcCache[pf.Filename] = b
	}
	if pf.Offset < 0 || pt.Offset > len(b) || pf.Offset > pt.Offset {
		return ""
	}
	return string(b[pf.Offset:pt.Offset])
}

func normText(s string) string {
	return strings.Join(strings.Fields(s), "")
}

// exprAt finds the innermost AST node of the wanted kind that contains pos in fn's syntax.
func (p *Program) nodeAt(fn *ssa.Function, pos token.Pos, want func(ast.Node) bool) ast.Node {
	root := fn.Syntax()
	for f := fn; root == nil && f.Parent() != nil; {
		f = f.Parent()
		root = f.Syntax()
	}
	if root == nil || !pos.IsValid() {
		return nil
	}
	var best ast.Node
	ast.Inspect(root, func(n ast.Node) bool {
		if n == nil {
			return false
		}
		if n.Pos() <= pos && pos < n.End() {
			if want(n) {
				best = n
			}
			return true
		}
		return false
	})
	return best
}

func relRepo(repo, file string) string {
	r, err := filepath.Rel(repo, file)
	if err != nil {
		return file
	}
	return r
}
