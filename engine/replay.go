package main

// Replay of a failed obligation on the REAL code, for functions whose parameters and results are all
// scalars (integers, booleans, strings; an error result is allowed): an in-package Go test is generated
// that calls the function with the solver's counterexample (and, when that does not reproduce or the
// solver gave none, with a small grid of inputs) and evaluates the failed obligation concretely:
// a postcondition is transliterated from its contract text to Go, an implicit safety obligation
// (bounds, division, explicit panic) fails when the call panics. The test is injected with
// `go test -overlay` (nothing is written to the repository). The replay never decides a verdict: it
// only turns "this claimed obligation fails" into "this input fails".

import (
	"encoding/json"
	"fmt"
	"go/types"
	"os"
	"os/exec"
	"path/filepath"
	"regexp"
	"strconv"
	"strings"
	"time"

	"golang.org/x/tools/go/ssa"
)

type replayOutcome struct {
	Confirmed bool
	Input     string
	Source    string // generated test
	Output    string
	Cmd       string
	FromModel bool
	PkgDir    string // package directory relative to the repository root
}

type rpVar struct {
	goName string
	kind   string // int | bool | str | err
}

func basicKind(t types.Type) string {
	if isErrorType(t) {
		return "err"
	}
	b, ok := t.Underlying().(*types.Basic)
	if !ok {
		return ""
	}
	switch {
	case b.Info()&types.IsInteger != 0:
		return "int"
	case b.Info()&types.IsBoolean != 0:
		return "bool"
	case b.Info()&types.IsString != 0:
		return "str"
	}
	return ""
}

func isErrorType(t types.Type) bool {
	n, ok := t.(*types.Named)
	return ok && n.Obj().Pkg() == nil && n.Obj().Name() == "error"
}

// scalarReplayable: a package-level function with scalar parameters and results.
func scalarReplayable(fn *ssa.Function) bool {
	if fn == nil || fn.Pkg == nil || fn.Parent() != nil || fn.Signature.Recv() != nil || len(fn.FreeVars) > 0 || fn.Object() == nil {
		return false
	}
	sig := fn.Signature
	if sig.Variadic() || sig.Params().Len() == 0 {
		return false
	}
	qual := func(p *types.Package) string {
		if p == fn.Pkg.Pkg {
			return ""
		}
		return p.Name()
	}
	for i := 0; i < sig.Params().Len(); i++ {
		t := sig.Params().At(i).Type()
		k := basicKind(t)
		if k == "" || k == "err" || strings.Contains(types.TypeString(t, qual), ".") {
			return false
		}
	}
	for i := 0; i < sig.Results().Len(); i++ {
		if basicKind(sig.Results().At(i).Type()) == "" {
			return false
		}
	}
	return true
}

var reModelPair = regexp.MustCompile(`\((p_[A-Za-z0-9_]+)\s+((?:\(-\s*\d+\))|(?:-?\d+)|true|false|[^()\s]+|\([^()]*\))\)`)

// modelInputs extracts parameter values of the counterexample (nil when a value cannot be used).
func modelInputs(fn *ssa.Function, model string) []string {
	vals := map[string]string{}
	for _, m := range reModelPair.FindAllStringSubmatch(model, -1) {
		vals[m[1]] = m[2]
	}
	strs := map[string]string{}
	var out []string
	for _, p := range fn.Params {
		v, ok := vals["p_"+sanitize(p.Name())]
		if !ok {
			return nil
		}
		switch basicKind(p.Type()) {
		case "int":
			v = strings.ReplaceAll(strings.ReplaceAll(strings.ReplaceAll(v, "(- ", "-"), "(-", "-"), ")", "")
			if _, err := strconv.ParseInt(v, 10, 64); err != nil {
				if _, err2 := strconv.ParseUint(v, 10, 64); err2 != nil {
					return nil
				}
			}
			out = append(out, v)
		case "bool":
			if v != "true" && v != "false" {
				return nil
			}
			out = append(out, v)
		case "str":
			// abstract string sort: distinct model values become distinct plain strings
			if _, seen := strs[v]; !seen {
				strs[v] = fmt.Sprintf("%c%d", 'a'+len(strs)%26, len(strs))
			}
			out = append(out, strconv.Quote(strs[v]))
		default:
			return nil
		}
	}
	return out
}

// gridInputs: a small grid of ordinary and boundary inputs, tried when the counterexample does not reproduce.
func gridInputs(fn *ssa.Function) [][]string {
	ints := []string{"0", "1", "2", "3", "7", "63", "64", "65", "100", "1000", "4095", "4096", "65536"}
	strsV := []string{`"a"`, `"b1"`, `"x/y"`, `""`, `"repo-1"`}
	var per [][]string
	for _, p := range fn.Params {
		switch basicKind(p.Type()) {
		case "int":
			per = append(per, ints)
		case "bool":
			per = append(per, []string{"false", "true"})
		case "str":
			per = append(per, strsV)
		}
	}
	var out [][]string
	var rec func(i int, cur []string)
	rec = func(i int, cur []string) {
		if len(out) >= 3000 {
			return
		}
		if i == len(per) {
			out = append(out, append([]string{}, cur...))
			return
		}
		for _, v := range per[i] {
			rec(i+1, append(cur, v))
		}
	}
	rec(0, nil)
	return out
}

// goExpr transliterates a specification expression into Go over the replay test's variables.
func goExpr(x SExpr, vars map[string]rpVar) (string, string, bool) {
	switch n := x.(type) {
	case *SInt:
		return "int64(" + n.v + ")", "int", true
	case *SStr:
		return strconv.Quote(n.v), "str", true
	case *SIdent:
		switch n.name {
		case "true", "false":
			return n.name, "bool", true
		case "nil":
			return "nil", "nil", true
		}
		v, ok := vars[n.name]
		if !ok {
			return "", "", false
		}
		if v.kind == "int" {
			return "int64(" + v.goName + ")", "int", true
		}
		return v.goName, v.kind, true
	case *SOld:
		return goExpr(n.x, vars)
	case *SUn:
		a, k, ok := goExpr(n.x, vars)
		if !ok {
			return "", "", false
		}
		switch n.op {
		case "!":
			return "(!" + a + ")", "bool", true
		case "-":
			return "(-" + a + ")", k, true
		}
		return "", "", false
	case *SBin:
		a, ka, ok1 := goExpr(n.x, vars)
		b, kb, ok2 := goExpr(n.y, vars)
		if !ok1 || !ok2 {
			return "", "", false
		}
		switch n.op {
		case "==>":
			return "(!" + a + " || " + b + ")", "bool", true
		case "<==>":
			return "(" + a + " == " + b + ")", "bool", true
		case "&&", "||":
			return "(" + a + " " + n.op + " " + b + ")", "bool", true
		case "==", "!=", "<", "<=", ">", ">=":
			if ka == "err" || kb == "err" || ka == "nil" || kb == "nil" {
				if n.op != "==" && n.op != "!=" {
					return "", "", false
				}
			}
			return "(" + a + " " + n.op + " " + b + ")", "bool", true
		case "+":
			if ka == "str" {
				return "(" + a + " + " + b + ")", "str", true
			}
			return "(" + a + " + " + b + ")", "int", true
		case "-", "*":
			return "(" + a + " " + n.op + " " + b + ")", "int", true
		case "/", "%":
			return "(" + a + " " + n.op + " " + b + ")", "int", true
		}
		return "", "", false
	case *SCall:
		var as, ks []string
		for _, aexp := range n.args {
			a, k, ok := goExpr(aexp, vars)
			if !ok {
				return "", "", false
			}
			as, ks = append(as, a), append(ks, k)
		}
		switch n.fun {
		case "len":
			if len(as) == 1 && ks[0] == "str" {
				return "int64(len(" + as[0] + "))", "int", true
			}
		case "cat":
			return "(" + strings.Join(as, " + ") + ")", "str", true
		case "dec":
			if len(as) == 1 {
				return "strconv.FormatInt(" + as[0] + ", 10)", "str", true
			}
		case "min", "max":
			if len(as) == 2 {
				op := "<"
				if n.fun == "max" {
					op = ">"
				}
				return fmt.Sprintf("func() int64 { if %s %s %s { return %s }; return %s }()", as[0], op, as[1], as[0], as[1]), "int", true
			}
		case "ite":
			if len(as) == 3 {
				ty := map[string]string{"int": "int64", "bool": "bool", "str": "string"}[ks[1]]
				if ty != "" {
					return fmt.Sprintf("func() %s { if %s { return %s }; return %s }()", ty, as[0], as[1], as[2]), ks[1], true
				}
			}
		case "hasPrefix":
			return "strings.HasPrefix(" + as[0] + ", " + as[1] + ")", "bool", true
		case "hasSuffix":
			return "strings.HasSuffix(" + as[0] + ", " + as[1] + ")", "bool", true
		case "contains":
			return "strings.Contains(" + as[0] + ", " + as[1] + ")", "bool", true
		case "int", "int64", "uint64", "uint":
			if len(as) == 1 {
				return as[0], "int", true
			}
		}
		return "", "", false
	}
	return "", "", false
}

// replayScalar tries to find a concrete failing input for a failed obligation of fn.
func (p *Program) replayScalar(repo string, fn *ssa.Function, o *Obligation, model string) *replayOutcome {
	if !scalarReplayable(fn) {
		return nil
	}
	sig := fn.Signature
	qual := func(pk *types.Package) string {
		if pk == fn.Pkg.Pkg {
			return ""
		}
		return pk.Name()
	}
	vars := map[string]rpVar{}
	var pnames, rnames []string
	for i, prm := range fn.Params {
		g := fmt.Sprintf("a%d", i)
		pnames = append(pnames, g)
		vars[prm.Name()] = rpVar{goName: g, kind: basicKind(prm.Type())}
	}
	for i := 0; i < sig.Results().Len(); i++ {
		r := sig.Results().At(i)
		g := fmt.Sprintf("r%d", i)
		rnames = append(rnames, g)
		k := basicKind(r.Type())
		if r.Name() != "" && r.Name() != "_" {
			vars[r.Name()] = rpVar{goName: g, kind: k}
		}
		vars[fmt.Sprintf("ret%d", i)] = rpVar{goName: g, kind: k}
		if i == 0 {
			vars["result"] = rpVar{goName: g, kind: k}
		}
	}
	check := ""
	switch o.Class {
	case "post":
		ex, err := parseSpec(o.Text)
		if err != nil {
			return nil
		}
		g, k, ok := goExpr(ex, vars)
		if !ok || k != "bool" {
			return nil
		}
		check = g
	case "bounds", "div0", "nopanic", "nil", "typeassert":
		check = "" // fails when the call panics
	default:
		return nil
	}
	var inputs [][]string
	fromModel := 0
	if mi := modelInputs(fn, model); mi != nil {
		inputs = append(inputs, mi)
		fromModel = 1
	}
	// the grid is only meaningful on inputs the contract admits: the preconditions are evaluated in Go too
	// (no grid when one of them cannot be transliterated)
	pre := "true"
	if c := p.contracts[p.fnName[fn]]; c != nil {
		for _, r := range c.requires {
			g, k, ok := goExpr(r.expr, vars)
			if !ok || k != "bool" {
				pre = ""
				break
			}
			pre += " && " + g
		}
	}
	if pre != "" {
		inputs = append(inputs, gridInputs(fn)...)
	} else {
		pre = "true"
	}
	if len(inputs) == 0 {
		return nil
	}
	var sb strings.Builder
	pkgName := fn.Pkg.Pkg.Name()
	fmt.Fprintf(&sb, "package %s\n\nimport (\n\t\"fmt\"\n\t\"strconv\"\n\t\"strings\"\n\t\"testing\"\n)\n\nvar _ = strconv.Itoa\nvar _ = strings.Contains\n\n", pkgName)
	fmt.Fprintf(&sb, "// generated by govc: replay of %s on the real code\n", o.Name)
	sb.WriteString("func govcReplayOne(")
	for i, prm := range fn.Params {
		if i > 0 {
			sb.WriteString(", ")
		}
		fmt.Fprintf(&sb, "%s %s", pnames[i], types.TypeString(prm.Type(), qual))
	}
	sb.WriteString(") (failed bool, how string) {\n")
	fmt.Fprintf(&sb, "\tif !(%s) {\n\t\treturn false, \"\" // outside the precondition\n\t}\n", pre)
	sb.WriteString("\tdefer func() {\n\t\tif r := recover(); r != nil {\n\t\t\tfailed, how = true, fmt.Sprintf(\"panic: %v\", r)\n\t\t}\n\t}()\n")
	call := fmt.Sprintf("%s(%s)", fn.Name(), strings.Join(pnames, ", "))
	if len(rnames) > 0 {
		fmt.Fprintf(&sb, "\t%s := %s\n", strings.Join(rnames, ", "), call)
		for _, r := range rnames {
			fmt.Fprintf(&sb, "\t_ = %s\n", r)
		}
	} else {
		fmt.Fprintf(&sb, "\t%s\n", call)
	}
	if check != "" {
		fmt.Fprintf(&sb, "\tif !(%s) {\n\t\treturn true, fmt.Sprint(\"postcondition false; results: \"%s)\n\t}\n", check, func() string {
			s := ""
			for _, r := range rnames {
				s += ", " + r + `, " "`
			}
			return s
		}())
	}
	sb.WriteString("\treturn false, \"\"\n}\n\n")
	sb.WriteString("func TestGovcReplay(t *testing.T) {\n")
	sb.WriteString("\ttype in struct {\n")
	for i, prm := range fn.Params {
		fmt.Fprintf(&sb, "\t\t%s %s\n", pnames[i], types.TypeString(prm.Type(), qual))
	}
	sb.WriteString("\t}\n\tinputs := []in{\n")
	for _, in := range inputs {
		sb.WriteString("\t\t{" + strings.Join(in, ", ") + "},\n")
	}
	sb.WriteString("\t}\n\tfor k, x := range inputs {\n")
	var xs []string
	for _, g := range pnames {
		xs = append(xs, "x."+g)
	}
	fmt.Fprintf(&sb, "\t\tif failed, how := govcReplayOne(%s); failed {\n", strings.Join(xs, ", "))
	fmt.Fprintf(&sb, "\t\t\tfmt.Printf(\"REPLAY-CONFIRMED index=%%d input=%%+v %%s\\n\", k, x, how)\n\t\t\treturn\n\t\t}\n\t}\n")
	sb.WriteString("\tfmt.Println(\"REPLAY-NOT-REPRODUCED\")\n}\n")
	src := sb.String()

	pos := p.fset.Position(fn.Pos())
	dir := filepath.Dir(pos.Filename)
	tmp, err := os.MkdirTemp("", "govc-replay")
	if err != nil {
		return nil
	}
	defer os.RemoveAll(tmp)
	tf := filepath.Join(tmp, "zz_govc_replay_test.go")
	os.WriteFile(tf, []byte(src), 0o644)
	repl := map[string]string{filepath.Join(dir, "zz_govc_replay_test.go"): tf}
	if strings.HasSuffix(dir, "/pkg/core") {
		stub := filepath.Join(tmp, "stub.go")
		os.WriteFile(stub, []byte("package core\n"), 0o644)
		ms, _ := filepath.Glob(filepath.Join(dir, "*_test.go"))
		for _, m := range ms {
			repl[m] = stub
		}
	}
	ov, _ := json.Marshal(map[string]interface{}{"Replace": repl})
	ovf := filepath.Join(tmp, "ov.json")
	os.WriteFile(ovf, ov, 0o644)
	rel, _ := filepath.Rel(repo, dir)
	args := []string{"test", "-overlay", ovf, "-vet=off", "-count=1", "-v", "-timeout", "90s", "-run", "^TestGovcReplay$", "./" + rel}
	cmd := exec.Command("go", args...)
	cmd.Dir = repo
	cmd.Env = append(os.Environ(), "GOFLAGS=-mod=mod", "GOPROXY=off", "GOSUMDB=off", "GOTOOLCHAIN=local")
	done := make(chan struct{})
	var outB []byte
	go func() { outB, _ = cmd.CombinedOutput(); close(done) }()
	select {
	case <-done:
	case <-time.After(150 * time.Second):
		if cmd.Process != nil {
			cmd.Process.Kill()
		}
		return nil
	}
	out := string(outB)
	res := &replayOutcome{PkgDir: rel, Source: src, Output: trunc(out, 2000), Cmd: "cd " + repo + " && go " + strings.Join(args, " ") + "   (overlay: the generated test below as " + filepath.Join(rel, "zz_govc_replay_test.go") + ")"}
	for _, l := range strings.Split(out, "\n") {
		if strings.HasPrefix(l, "REPLAY-CONFIRMED") {
			res.Confirmed = true
			res.Input = strings.TrimPrefix(l, "REPLAY-CONFIRMED ")
			res.FromModel = fromModel == 1 && strings.Contains(l, "index=0 ")
		}
	}
	return res
}
