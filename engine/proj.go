package main

// Heap projections: a deterministic, effect-free callee whose reads of a heap sort are confined to
// a known set of fields (and/or slice elements) gets, instead of the whole heap array, the
// projection restrict_k(heap) as argument. Whenever the heap of that sort is updated OUTSIDE the
// footprint, the encoder asserts restrict_k(new) == restrict_k(old) -- a consequence of the frame
// of the update that the solver would otherwise need array extensionality for.

import (
	"fmt"
	"strings"
)

type projInfo struct {
	fp   footprint
	name string
}

type heapUpd struct {
	whole  bool         // anything may have changed
	elems  bool         // element cells changed
	fields map[int]bool // these leaf fields changed
}

func (e *enc) projFor(fp footprint) *projInfo {
	k := fp.key()
	if p, ok := e.projs[k]; ok {
		return p
	}
	p := &projInfo{fp: fp, name: fmt.Sprintf("restrict_%s_%d", sortKey(fp.sort), len(e.projs)+1)}
	e.projs[k] = p
	e.projOrder = append(e.projOrder, p)
	return p
}

// heapArgTerm: the argument standing for "what the callee reads of this sort".
func (e *enc) heapArgTerm(st *State, fp footprint) (term, sort string) {
	sort = "(Array Ref " + fp.sort + ")"
	h := e.heapNamed(st, fp.sort)
	if fp.whole {
		return h, sort
	}
	p := e.projFor(fp)
	e.declareFun(p.name, fmt.Sprintf("(%s) %s", sort, sort))
	return fmt.Sprintf("(%s %s)", p.name, h), sort
}

func (u heapUpd) outside(fp footprint) bool {
	if u.whole || fp.whole {
		return false
	}
	if u.elems && fp.elems {
		return false
	}
	for _, id := range fp.fields {
		if u.fields[id] {
			return false
		}
	}
	return true
}

// setHeap installs a new term for the global heap of a sort and relates the projections.
func (e *enc) setHeap(st *State, sort, old, nw string, u heapUpd) {
	cell := heapCell(sort)
	var affected []*projInfo
	for _, p := range e.projOrder {
		if p.fp.sort == sort && u.outside(p.fp) {
			affected = append(affected, p)
		}
	}
	if len(affected) == 0 {
		if len(nw) > 400 {
			n := e.fresh("Mem_"+sortKey(sort)+"_n", "(Array Ref "+sort+")")
			e.assert(eq(n, nw))
			nw = n
		}
		st.cells[cell] = nw
		return
	}
	name := func(t string) string {
		if !strings.HasPrefix(t, "(") {
			return t
		}
		n := e.fresh("Mem_"+sortKey(sort)+"_u", "(Array Ref "+sort+")")
		e.assert(eq(n, t))
		return n
	}
	o, n := name(old), name(nw)
	st.cells[cell] = n
	for _, p := range affected {
		e.declareFun(p.name, fmt.Sprintf("((Array Ref %s)) (Array Ref %s)", sort, sort))
		e.assert(fmt.Sprintf("(= (%s %s) (%s %s))", p.name, n, p.name, o))
	}
}

// updOfAddr classifies a scalar store by the outermost constructor of its address term.
func updOfAddr(addr string) heapUpd {
	switch {
	case strings.HasPrefix(addr, "(fld "):
		// (fld <base> <id>)
		i := strings.LastIndexByte(addr, ' ')
		id := 0
		fmt.Sscanf(strings.TrimSuffix(addr[i+1:], ")"), "%d", &id)
		return heapUpd{fields: map[int]bool{id: true}}
	case strings.HasPrefix(addr, "(elem "):
		return heapUpd{elems: true}
	}
	return heapUpd{whole: true}
}
