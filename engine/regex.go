package main

// Regular-expression obligations: the literal passed to regexp.MustCompile for a package-level
// variable is extracted from the source (constant-folded by go/types), translated to an SMT-LIB
// regular language with the semantics of (*Regexp).MatchString (unanchored search with ^ and $),
// and compared with a specification regex given in the contract file.

import (
	"fmt"
	"go/ast"
	"go/constant"
	"regexp/syntax"
	"strings"
)

type RegexClause struct {
	pkg    string
	label  string
	kind   string // covers: L(spec) ⊆ L(code); within: L(code) ⊆ L(spec) ∪ L(except); equals
	varN   string
	spec   string
	except string
	file   string
	line   int
}

func smtStrLit(s string) string {
	var sb strings.Builder
	sb.WriteByte('"')
	for _, r := range s {
		switch {
		case r == '"':
			sb.WriteString(`""`)
		case r < 32 || r > 126 || r == '\\':
			fmt.Fprintf(&sb, `\u{%x}`, r)
		default:
			sb.WriteRune(r)
		}
	}
	sb.WriteByte('"')
	return sb.String()
}

const reAllStr = "re.all"

func reConcat(a, b string) string {
	if a == `(str.to_re "")` {
		return b
	}
	if b == `(str.to_re "")` {
		return a
	}
	return "(re.++ " + a + " " + b + ")"
}

// trRe translates node followed by the continuation cont. atStart: the match position may be the
// beginning of the text (so that ^ can succeed). contNullable must hold for $ to succeed.
func trRe(n *syntax.Regexp, atStart bool, cont string) (string, error) {
	switch n.Op {
	case syntax.OpEmptyMatch:
		return cont, nil
	case syntax.OpLiteral:
		return reConcat("(str.to_re "+smtStrLit(string(n.Rune))+")", cont), nil
	case syntax.OpCharClass:
		var parts []string
		for i := 0; i+1 < len(n.Rune); i += 2 {
			lo, hi := n.Rune[i], n.Rune[i+1]
			if hi > 0x2FFFF {
				hi = 0x2FFFF
			}
			if lo > hi {
				continue
			}
			if lo == hi {
				parts = append(parts, "(str.to_re "+smtStrLit(string(lo))+")")
			} else {
				parts = append(parts, fmt.Sprintf("(re.range %s %s)", smtStrLit(string(lo)), smtStrLit(string(hi))))
			}
		}
		cls := "re.none"
		if len(parts) == 1 {
			cls = parts[0]
		} else if len(parts) > 1 {
			cls = "(re.union " + strings.Join(parts, " ") + ")"
		}
		return reConcat(cls, cont), nil
	case syntax.OpAnyCharNotNL, syntax.OpAnyChar:
		// '.' : any character (newline included: names and paths do not contain newlines; noted)
		return reConcat("re.allchar", cont), nil
	case syntax.OpBeginText, syntax.OpBeginLine:
		if atStart {
			return cont, nil
		}
		return "re.none", nil
	case syntax.OpEndText, syntax.OpEndLine:
		// end of text: nothing may follow (every continuation used here is nullable)
		return `(str.to_re "")`, nil
	case syntax.OpCapture:
		return trRe(n.Sub[0], atStart, cont)
	case syntax.OpStar, syntax.OpPlus, syntax.OpQuest, syntax.OpRepeat:
		inner, err := trRe(n.Sub[0], false, `(str.to_re "")`)
		if err != nil {
			return "", err
		}
		if containsAnchor(n.Sub[0]) {
			return "", fmt.Errorf("anchor under repetition is not supported")
		}
		var r string
		switch n.Op {
		case syntax.OpStar:
			r = "(re.* " + inner + ")"
		case syntax.OpPlus:
			r = "(re.+ " + inner + ")"
		case syntax.OpQuest:
			r = "(re.opt " + inner + ")"
		default:
			if n.Max < 0 {
				r = fmt.Sprintf("(re.++ ((_ re.^ %d) %s) (re.* %s))", n.Min, inner, inner)
			} else {
				r = fmt.Sprintf("((_ re.loop %d %d) %s)", n.Min, n.Max, inner)
			}
		}
		return reConcat(r, cont), nil
	case syntax.OpConcat:
		// right to left: each element is followed by the translation of the rest
		acc := cont
		for i := len(n.Sub) - 1; i >= 0; i-- {
			st := atStart && i == 0
			if i > 0 && atStart {
				// an element after a possibly-empty prefix is still at the start only if the prefix is
				// empty; approximated as "not at start", exact for the regexes used (anchors lead)
				st = allNullableAnchors(n.Sub[:i])
			}
			t, err := trRe(n.Sub[i], st, acc)
			if err != nil {
				return "", err
			}
			acc = t
		}
		return acc, nil
	case syntax.OpAlternate:
		var parts []string
		for _, s := range n.Sub {
			t, err := trRe(s, atStart, cont)
			if err != nil {
				return "", err
			}
			parts = append(parts, t)
		}
		return "(re.union " + strings.Join(parts, " ") + ")", nil
	}
	return "", fmt.Errorf("unsupported regex operator %v", n.Op)
}

func containsAnchor(n *syntax.Regexp) bool {
	switch n.Op {
	case syntax.OpBeginText, syntax.OpEndText, syntax.OpBeginLine, syntax.OpEndLine:
		return true
	}
	for _, s := range n.Sub {
		if containsAnchor(s) {
			return true
		}
	}
	return false
}

func allNullableAnchors(ns []*syntax.Regexp) bool {
	for _, n := range ns {
		if n.Op != syntax.OpBeginText && n.Op != syntax.OpBeginLine && n.Op != syntax.OpEmptyMatch {
			return false
		}
	}
	return true
}

// goRegexToSMT: the set of strings s for which regexp.MustCompile(pattern).MatchString(s) is true.
func goRegexToSMT(pattern string) (string, error) {
	re, err := syntax.Parse(pattern, syntax.Perl)
	if err != nil {
		return "", err
	}
	// match starting at position 0 (^ may succeed) or at a later position (it cannot)
	a, err := trRe(re, true, reAllStr)
	if err != nil {
		return "", err
	}
	b, err := trRe(re, false, reAllStr)
	if err != nil {
		return "", err
	}
	return fmt.Sprintf("(re.union %s (re.++ re.allchar (re.++ re.all %s)))", a, b), nil
}

// regexOfVar finds `name = regexp.MustCompile(<constant>)` in the package sources.
func (p *Program) regexOfVar(pkgName, name string) (string, error) {
	for _, pk := range p.allPkgs {
		if pk.Name != pkgName || !strings.HasPrefix(pk.PkgPath, datamonPrefix) {
			continue
		}
		var found string
		ok := false
		for _, f := range pk.Syntax {
			ast.Inspect(f, func(n ast.Node) bool {
				var lhs ast.Expr
				var rhs ast.Expr
				switch a := n.(type) {
				case *ast.AssignStmt:
					if len(a.Lhs) == 1 && len(a.Rhs) == 1 {
						lhs, rhs = a.Lhs[0], a.Rhs[0]
					}
				case *ast.ValueSpec:
					if len(a.Names) == 1 && len(a.Values) == 1 {
						lhs, rhs = a.Names[0], a.Values[0]
					}
				}
				id, isId := lhs.(*ast.Ident)
				call, isCall := rhs.(*ast.CallExpr)
				if !isId || !isCall || id.Name != name || len(call.Args) != 1 {
					return true
				}
				if sel, isSel := call.Fun.(*ast.SelectorExpr); isSel && sel.Sel.Name == "MustCompile" {
					if tv, has := pk.TypesInfo.Types[call.Args[0]]; has && tv.Value != nil && tv.Value.Kind() == constant.String {
						found, ok = constant.StringVal(tv.Value), true
					}
				}
				return true
			})
		}
		if ok {
			return found, nil
		}
	}
	return "", fmt.Errorf("no regexp.MustCompile(<constant>) assignment to %s.%s found", pkgName, name)
}

// regexObligation builds the self-contained query for a clause; unsat means the clause holds.
func (p *Program) regexObligation(c *RegexClause) (*Obligation, error) {
	src, err := p.regexOfVar(c.pkg, c.varN)
	if err != nil {
		return nil, err
	}
	code, err := goRegexToSMT(src)
	if err != nil {
		return nil, fmt.Errorf("code regex %q: %v", src, err)
	}
	spec, err := goRegexToSMT(c.spec)
	if err != nil {
		return nil, fmt.Errorf("spec regex %q: %v", c.spec, err)
	}
	var sb strings.Builder
	sb.WriteString("(set-option :produce-models true)\n(set-logic ALL)\n(declare-const x String)\n")
	fmt.Fprintf(&sb, "; code regex of %s.%s: %s\n; spec: %s\n", c.pkg, c.varN, src, c.spec)
	switch c.kind {
	case "covers":
		fmt.Fprintf(&sb, "(assert (str.in_re x %s))\n(assert (not (str.in_re x %s)))\n", spec, code)
	case "within":
		fmt.Fprintf(&sb, "(assert (str.in_re x %s))\n(assert (not (str.in_re x %s)))\n", code, spec)
		if c.except != "" {
			ex, err := goRegexToSMT(c.except)
			if err != nil {
				return nil, fmt.Errorf("except regex %q: %v", c.except, err)
			}
			fmt.Fprintf(&sb, "(assert (not (str.in_re x %s)))\n", ex)
		}
	case "equals":
		fmt.Fprintf(&sb, "(assert (not (= (str.in_re x %s) (str.in_re x %s))))\n", code, spec)
	default:
		return nil, fmt.Errorf("unknown regex clause kind %q", c.kind)
	}
	sb.WriteString("(check-sat)\n(get-value (x))\n")
	name := fmt.Sprintf("%s.regex:%s#regex:%s", c.pkg, c.varN, c.label)
	return &Obligation{Name: name, Func: c.pkg + ".regex:" + c.varN, Class: "regex", Key: c.label, Raw: sb.String(),
		Text: fmt.Sprintf("%s %s /%s/ (code: /%s/)", c.varN, c.kind, c.spec, src), Pos: fmt.Sprintf("%s:%d", c.file, c.line)}, nil
}
