package main

import (
	"fmt"
	"go/ast"
	"go/token"
	"go/types"
	"math/big"
	"strings"

	"golang.org/x/tools/go/ssa"
)

func isIndexLike(n ast.Node) bool {
	switch n.(type) {
	case *ast.IndexExpr, *ast.SliceExpr, *ast.RangeStmt:
		return true
	}
	return false
}

func (e *enc) setCell(st *State, a *ssa.Alloc, term string) {
	name := e.cellName(a)
	t := a.Type().Underlying().(*types.Pointer).Elem()
	e.cellSortOf[name] = sortOf(t)
	if len(term) > 120 {
		n := e.fresh("c_"+a.Comment, sortOf(t))
		e.assert(eq(n, term))
		term = n
	}
	st.cells[name] = term
}

func (e *enc) getCell(st *State, a *ssa.Alloc) string {
	name := e.cellName(a)
	t := a.Type().Underlying().(*types.Pointer).Elem()
	e.cellSortOf[name] = sortOf(t)
	if v, ok := st.cells[name]; ok {
		return v
	}
	// read before (re)initialisation on this path: zero value
	z := e.zeroOf(t)
	st.cells[name] = z
	return z
}

// needsNilCheck: addresses that are known non-nil by construction.
func needsNilCheck(v ssa.Value) bool {
	switch stripVal(v).(type) {
	case *ssa.Alloc, *ssa.FieldAddr, *ssa.IndexAddr, *ssa.Global, *ssa.FreeVar:
		return false
	}
	return true
}

func (e *enc) nilCheck(v ssa.Value, term string, pos token.Pos) {
	if !needsNilCheck(v) {
		return
	}
	// receivers and parameters checked at the same term only once (oblige de-duplicates)
	txt := e.valText(v)
	e.oblige("nil", txt, fmt.Sprintf("(not (= %s null))", term), pos, txt)
}

// valText gives a stable, source-like description of an SSA value.
func (e *enc) valText(v ssa.Value) string {
	switch x := stripVal(v).(type) {
	case *ssa.Parameter:
		return x.Name()
	case *ssa.FreeVar:
		return x.Name()
	case *ssa.Alloc:
		return x.Comment
	case *ssa.Global:
		return x.Name()
	case *ssa.Const:
		return x.String()
	case *ssa.UnOp:
		if x.Op == token.MUL {
			return e.valText(x.X)
		}
		return x.Op.String() + e.valText(x.X)
	case *ssa.FieldAddr:
		if st := structOf(x.X.Type()); st != nil {
			return e.valText(x.X) + "." + st.Field(x.Field).Name()
		}
	case *ssa.Field:
		if st := structOf(x.X.Type()); st != nil {
			return e.valText(x.X) + "." + st.Field(x.Field).Name()
		}
	case *ssa.IndexAddr:
		return e.valText(x.X) + "[" + e.valText(x.Index) + "]"
	case *ssa.Index:
		return e.valText(x.X) + "[" + e.valText(x.Index) + "]"
	case *ssa.Call:
		if x.Call.IsInvoke() {
			// a method of an interface value: keep the receiver (ctx.Done() and cctx.Done() are two channels)
			return e.valText(x.Call.Value) + "." + x.Call.Method.Name() + "()"
		}
		return e.calleeShort(&x.Call) + "()"
	case *ssa.Extract:
		return fmt.Sprintf("%s.%d", e.valText(x.Tuple), x.Index)
	case *ssa.BinOp:
		return e.valText(x.X) + x.Op.String() + e.valText(x.Y)
	case *ssa.Convert:
		return e.valText(x.X)
	case *ssa.ChangeInterface:
		return e.valText(x.X)
	case *ssa.MakeInterface:
		return e.valText(x.X)
	case *ssa.TypeAssert:
		return e.valText(x.X) + ".(" + types.TypeString(x.AssertedType, func(*types.Package) string { return "" }) + ")"
	case *ssa.Slice:
		return e.valText(x.X) + "[:]"
	case *ssa.Lookup:
		return e.valText(x.X) + "[" + e.valText(x.Index) + "]"
	case *ssa.Phi:
		return "phi"
	case *ssa.Next:
		return "range"
	case *ssa.MakeSlice:
		return "make"
	case *ssa.Function:
		return x.Name()
	}
	return "?"
}

func (e *enc) instr(b *ssa.BasicBlock, st *State, ins ssa.Instruction) {
	switch x := ins.(type) {
	case *ssa.DebugRef:
	case *ssa.Alloc:
		t := x.Type().Underlying().(*types.Pointer).Elem()
		if e.scalar[x] {
			e.setCell(st, x, e.zeroOf(t))
			return
		}
		ref, ok := e.allocRef[x]
		if !ok {
			ref = e.newAllocRefFor(x)
			e.allocRef[x] = ref
		}
		e.vals[x] = []string{ref}
		if at, isArr := t.Underlying().(*types.Array); isArr && !isHeapScalar(sortOf(at.Elem())) && isLocalTerm(ref) {
			// local array of aggregates (typically the varargs array of a logging call): its cells are
			// left unconstrained instead of zeroed -- an over-approximation that avoids three
			// quantified frames per call
			return
		}
		e.storeValue(st, ref, e.zeroOf(t), t)
	case *ssa.Store:
		if a, ok := x.Addr.(*ssa.Alloc); ok && e.scalar[a] {
			e.setCell(st, a, e.val(x.Val))
			return
		}
		addr := e.val(x.Addr)
		e.nilCheck(x.Addr, addr, x.Pos())
		e.storeValue(st, addr, e.val(x.Val), x.Val.Type())
	case *ssa.UnOp:
		e.unop(st, x)
	case *ssa.BinOp:
		e.binop(st, x)
	case *ssa.Phi:
		n := e.fresh("phi_"+x.Name(), sortOf(x.Type()))
		for i, pr := range b.Preds {
			if e.backEdge[[2]*ssa.BasicBlock{pr, b}] {
				continue
			}
			c, ok := e.edgeCond[[2]*ssa.BasicBlock{pr, b}]
			if !ok {
				continue
			}
			if _, done := e.blockOut[pr]; !done {
				continue
			}
			e.assert(implies(c, eq(n, e.val(x.Edges[i]))))
		}
		e.vals[x] = []string{n}
	case *ssa.Call:
		res := e.call(st, &x.Call, x, x.Pos(), "call")
		if res != nil {
			e.vals[x] = res
		}
	case *ssa.Go:
		e.call(st, &x.Call, x, x.Pos(), "go")
	case *ssa.Defer:
		cell := fmt.Sprintf("Armed_%d", len(e.defers))
		e.cellSortOf[cell] = "Bool"
		// arguments are evaluated now
		d := &deferRec{ins: x, armed: cell}
		for _, a := range x.Call.Args {
			_ = e.valN(a)
		}
		e.defers = append(e.defers, d)
		st.cells[cell] = "true"
		e.declare(cell+"_0", "Bool")
		e.assertOnce("(not " + cell + "_0)")
	case *ssa.RunDefers:
		e.runDefers(st)
	case *ssa.ChangeType:
		e.vals[x] = e.valN(x.X)
	case *ssa.ChangeInterface:
		e.vals[x] = e.valN(x.X)
	case *ssa.Convert:
		e.convert(st, x)
	case *ssa.MakeInterface:
		e.makeInterface(x)
	case *ssa.MakeClosure:
		ref := e.newObjRef()
		fn := x.Fn.(*ssa.Function)
		e.closures[x] = &closureInfo{fn: fn, bindings: x.Bindings, mc: x}
		e.vals[x] = []string{ref}
	case *ssa.MakeMap:
		ref := e.newObjRef()
		e.vals[x] = []string{ref}
		mt := x.Type().Underlying().(*types.Map)
		d, _ := e.mapCells(st, mt)
		ks := sortOf(mt.Key())
		st.cells[d] = fmt.Sprintf("(store %s %s ((as const (Array %s Bool)) false))", e.get(st, d, e.mapCellSort(d)), ref, ks)
	case *ssa.MakeChan:
		ref := e.newObjRef()
		e.vals[x] = []string{ref}
		e.assume(fmt.Sprintf("(= (chancap %s) %s)", ref, e.val(x.Size)))
		e.declareFun("chancap", "(Ref) Int")
	case *ssa.MakeSlice:
		e.makeSlice(st, x)
	case *ssa.Slice:
		e.slice(st, x)
	case *ssa.FieldAddr:
		base := e.val(x.X)
		e.nilCheck(x.X, base, x.Pos())
		stt := structOf(x.X.Type())
		e.vals[x] = []string{e.mkFld(base, fieldID(stt.Field(x.Field)))}
	case *ssa.Field:
		si := structSort(x.X.Type())
		e.setVal(x, projField(si, x.Field, e.val(x.X)))
	case *ssa.IndexAddr:
		e.indexAddr(st, x)
	case *ssa.Index:
		xv := e.val(x.X)
		iv := e.val(x.Index)
		txt := e.srcText(x.Pos(), isIndexLike)
		if txt == "" {
			txt = e.valText(x)
		}
		switch u := x.X.Type().Underlying().(type) {
		case *types.Array:
			e.oblige("bounds", txt, fmt.Sprintf("(and (<= 0 %s) (< %s %d))", iv, iv, u.Len()), x.Pos(), txt)
			e.setVal(x, fmt.Sprintf("(select %s %s)", xv, iv))
		default: // string
			e.oblige("bounds", txt, fmt.Sprintf("(and (<= 0 %s) (< %s (strlen %s)))", iv, iv, xv), x.Pos(), txt)
			n := fmt.Sprintf("(strat %s %s)", xv, iv)
			e.assume(fmt.Sprintf("(and (<= 0 %s) (<= %s 255))", n, n))
			e.setVal(x, n)
		}
	case *ssa.Lookup:
		e.lookup(st, x)
	case *ssa.MapUpdate:
		m := e.val(x.Map)
		txt := e.valText(x.Map)
		e.oblige("nilmap", txt, fmt.Sprintf("(not (= %s null))", m), x.Pos(), txt)
		mt := x.Map.Type().Underlying().(*types.Map)
		d, v := e.mapCells(st, mt)
		k := e.val(x.Key)
		dm := e.get(st, d, e.mapCellSort(d))
		vm := e.get(st, v, e.mapCellSort(v))
		st.cells[d] = fmt.Sprintf("(store %s %s (store (select %s %s) %s true))", dm, m, dm, m, k)
		st.cells[v] = fmt.Sprintf("(store %s %s (store (select %s %s) %s %s))", vm, m, vm, m, k, e.val(x.Value))
	case *ssa.Range:
		e.vals[x] = []string{e.val(x.X)}
	case *ssa.Next:
		e.next(st, x)
	case *ssa.TypeAssert:
		e.typeAssert(st, x)
	case *ssa.Extract:
		ts := e.valN(x.Tuple)
		if x.Index >= len(ts) {
			panic(fmt.Sprintf("extract %d of %d from %s", x.Index, len(ts), x.Tuple.Name()))
		}
		e.vals[x] = []string{ts[x.Index]}
	case *ssa.Select:
		e.selectInstr(st, x)
	case *ssa.Send:
		e.syncPoint(st, "send")
		_ = e.val(x.X)
		e.sendClauses(st, x.Chan, x.X, x.Pos())
		e.countSend(st, x.Chan, "")
	case *ssa.Panic:
		txt := e.srcText(x.Pos(), func(n ast.Node) bool { _, ok := n.(*ast.CallExpr); return ok })
		if txt == "" {
			txt = "panic"
		}
		if len(txt) > 60 {
			txt = txt[:60]
		}
		e.oblige("nopanic", txt, "false", x.Pos(), txt)
	case *ssa.Return:
		var vs []string
		for _, r := range x.Results {
			vs = append(vs, e.val(r))
		}
		e.retStates = append(e.retStates, retRec{st: st.clone(), reach: e.reach, vals: vs})
	case *ssa.If:
		c := e.val(x.Cond)
		e.edgeCond[[2]*ssa.BasicBlock{b, b.Succs[0]}] = c
		e.edgeCond[[2]*ssa.BasicBlock{b, b.Succs[1]}] = not(c)
		for i, s := range b.Succs {
			if e.backEdge[[2]*ssa.BasicBlock{b, s}] {
				cc := c
				if i == 1 {
					cc = not(c)
				}
				e.latch(b, st, cc, s)
			}
		}
	case *ssa.Jump:
		e.edgeCond[[2]*ssa.BasicBlock{b, b.Succs[0]}] = "true"
		if e.backEdge[[2]*ssa.BasicBlock{b, b.Succs[0]}] {
			e.latch(b, st, "true", b.Succs[0])
		}
	case *ssa.SliceToArrayPointer:
		e.vals[x] = []string{e.fresh("s2a", "Ref")}
	case *ssa.MultiConvert:
		e.vals[x] = []string{e.fresh("mconv", sortOf(x.Type()))}
	default:
		panic(fmt.Sprintf("unsupported instruction %T: %v", ins, ins))
	}
}

func (e *enc) unop(st *State, x *ssa.UnOp) {
	switch x.Op {
	case token.MUL:
		if a, ok := x.X.(*ssa.Alloc); ok && e.scalar[a] {
			e.vals[x] = []string{e.getCell(st, a)}
			return
		}
		addr := e.val(x.X)
		e.nilCheck(x.X, addr, x.Pos())
		ldst := st
		if g, ok := x.X.(*ssa.Global); ok && e.p.immutableGlobal(g) && e.entry != nil {
			// a package variable nothing but its package's init assigns (error sentinels, tables):
			// it has the value it had on entry, whatever was called in between
			ldst = e.entry
			e.note("package variables that only their package's init assigns (error sentinels, tables) are read with the value they had on entry")
		}
		v := e.loadValue(ldst, addr, x.Type())
		e.setVal(x, v)
		e.assumeAll(e.facts(e.val(x), x.Type(), false))
		// references found in the INITIAL heap are never this activation's own allocations
		switch sortOf(x.Type()) {
		case "Slice":
			e.declare("Mem_Slice_0", "(Array Ref Slice)")
			e.assertOnce(fmt.Sprintf("(>= (root (sarr (select Mem_Slice_0 %s))) 0)", addr))
		case "Ref":
			e.declare("Mem_Ref_0", "(Array Ref Ref)")
			e.assertOnce(fmt.Sprintf("(>= (root (select Mem_Ref_0 %s)) 0)", addr))
		}
	case token.NOT:
		e.setVal(x, not(e.val(x.X)))
	case token.SUB:
		if isFloat(x.Type()) {
			e.setVal(x, fmt.Sprintf("(- %s)", e.val(x.X)))
			return
		}
		e.setVal(x, fmt.Sprintf("(- %s)", e.val(x.X)))
	case token.XOR:
		if lo, hi, uns, ok := intRange(x.Type()); ok && uns {
			_ = lo
			e.setVal(x, fmt.Sprintf("(- %s %s)", numBig(hi), e.val(x.X)))
		} else {
			e.setVal(x, fmt.Sprintf("(- (- %s) 1)", e.val(x.X)))
		}
	case token.ARROW:
		e.syncPoint(st, "recv")
		ct := x.X.Type().Underlying().(*types.Chan)
		v := e.fresh("recv", sortOf(ct.Elem()))
		e.assumeAll(e.facts(v, ct.Elem(), true))
		e.recvAssume(st, x.X, v, ct.Elem())
		e.countRecv(st, x.X, "")
		// "recv <chan> flag <name>": ghost boolean that becomes true once this receive has happened
		if e.c != nil {
			for _, cc := range e.c.calls["recv:"+e.valText(x.X)] {
				if cc.kind == "flag" {
					gc := e.ghostCellFor(cc.name, SVal{sort: "Bool"})
					e.declare(gc.cell+"_0", "Bool")
					e.assertOnce("(not " + gc.cell + "_0)")
					st.cells[gc.cell] = "true"
				}
			}
		}
		if x.CommaOk {
			ok := e.fresh("recvok", "Bool")
			e.vals[x] = []string{v, ok}
		} else {
			e.vals[x] = []string{v}
		}
	default:
		panic("unsupported unop " + x.Op.String())
	}
}

func constInt(v ssa.Value) (*big.Int, bool) {
	c, ok := v.(*ssa.Const)
	if !ok || c.Value == nil {
		return nil, false
	}
	if !isInteger(c.Type()) {
		return nil, false
	}
	b, ok2 := new(big.Int).SetString(c.Value.ExactString(), 10)
	return b, ok2
}

func (e *enc) binop(st *State, x *ssa.BinOp) {
	a, b := e.val(x.X), e.val(x.Y)
	t := x.X.Type()
	txt := func() string {
		s := e.srcText(x.Pos(), func(n ast.Node) bool { _, ok := n.(*ast.BinaryExpr); return ok })
		if s == "" {
			s = e.valText(x)
		}
		return s
	}
	switch x.Op {
	case token.EQL:
		e.setVal(x, e.eqTerm(a, b, t))
		return
	case token.NEQ:
		e.setVal(x, not(e.eqTerm(a, b, t)))
		return
	case token.LAND:
		e.setVal(x, and(a, b))
		return
	case token.LOR:
		e.setVal(x, or(a, b))
		return
	}
	if isString(t) {
		switch x.Op {
		case token.ADD:
			n := fmt.Sprintf("(strcat %s %s)", a, b)
			e.setVal(x, n)
			e.assume(fmt.Sprintf("(= (strlen %s) (+ (strlen %s) (strlen %s)))", e.val(x), a, b))
		case token.LSS:
			e.setVal(x, fmt.Sprintf("(strlt %s %s)", a, b))
		case token.GTR:
			e.setVal(x, fmt.Sprintf("(strlt %s %s)", b, a))
		case token.LEQ:
			e.setVal(x, fmt.Sprintf("(or (= %s %s) (strlt %s %s))", a, b, a, b))
		case token.GEQ:
			e.setVal(x, fmt.Sprintf("(or (= %s %s) (strlt %s %s))", a, b, b, a))
		default:
			panic("string op " + x.Op.String())
		}
		return
	}
	if isFloat(t) {
		op := map[token.Token]string{token.ADD: "+", token.SUB: "-", token.MUL: "*", token.QUO: "/", token.LSS: "<", token.LEQ: "<=", token.GTR: ">", token.GEQ: ">="}[x.Op]
		if op == "" {
			panic("float op " + x.Op.String())
		}
		e.setVal(x, fmt.Sprintf("(%s %s %s)", op, a, b))
		return
	}
	switch x.Op {
	case token.LSS:
		e.setVal(x, fmt.Sprintf("(< %s %s)", a, b))
	case token.LEQ:
		e.setVal(x, fmt.Sprintf("(<= %s %s)", a, b))
	case token.GTR:
		e.setVal(x, fmt.Sprintf("(> %s %s)", a, b))
	case token.GEQ:
		e.setVal(x, fmt.Sprintf("(>= %s %s)", a, b))
	case token.ADD, token.SUB, token.MUL:
		op := map[token.Token]string{token.ADD: "+", token.SUB: "-", token.MUL: "*"}[x.Op]
		r := fmt.Sprintf("(%s %s %s)", op, a, b)
		lo, hi, uns, ok := intRange(x.Type())
		if e.c != nil && e.c.nooverflow && ok {
			e.oblige("overflow", txt(), fmt.Sprintf("(and (<= %s %s) (<= %s %s))", numBig(lo), r, r, numBig(hi)), x.Pos(), txt())
		} else if ok && uns && x.Op == token.SUB {
			// unsigned subtraction wraps exactly
			r = fmt.Sprintf("(ite (>= %s %s) (- %s %s) (+ (- %s %s) %s))", a, b, a, b, a, b, new(big.Int).Add(hi, big.NewInt(1)).String())
		}
		e.setVal(x, r)
	case token.QUO, token.REM:
		e.oblige("div0", txt(), fmt.Sprintf("(not (= %s 0))", b), x.Pos(), txt())
		f := "godiv"
		if x.Op == token.REM {
			f = "gomod"
		}
		if isUnsigned(t) {
			f = map[string]string{"godiv": "div", "gomod": "mod"}[f]
		}
		e.setVal(x, fmt.Sprintf("(%s %s %s)", f, a, b))
	case token.SHL, token.SHR:
		if k, ok := constInt(x.Y); ok && k.IsInt64() && k.Int64() < 64 {
			p := pow2(uint(k.Int64())).String()
			if x.Op == token.SHL {
				r := fmt.Sprintf("(* %s %s)", a, p)
				if lo, hi, uns, ok := intRange(x.Type()); ok && uns {
					_ = lo
					r = fmt.Sprintf("(mod %s %s)", r, new(big.Int).Add(hi, big.NewInt(1)).String())
				}
				e.setVal(x, r)
			} else {
				e.setVal(x, fmt.Sprintf("(div %s %s)", a, p))
			}
			return
		}
		f := "shl"
		if x.Op == token.SHR {
			f = "shr"
		}
		e.setVal(x, fmt.Sprintf("(%s %s %s)", f, a, b))
		if _, _, uns, ok := intRange(x.Type()); ok && uns {
			e.assume(fmt.Sprintf("(>= %s 0)", e.val(x)))
		}
	case token.AND:
		if k, ok := constInt(x.Y); ok && k.Sign() >= 0 {
			k1 := new(big.Int).Add(k, big.NewInt(1))
			if k1.BitLen() > 0 && new(big.Int).And(k1, k).Sign() == 0 && isUnsigned(t) {
				e.setVal(x, fmt.Sprintf("(mod %s %s)", a, k1.String()))
				return
			}
		}
		r := fmt.Sprintf("(bitand %s %s)", a, b)
		e.setVal(x, r)
		if isUnsigned(t) {
			e.assume(fmt.Sprintf("(and (<= 0 %s) (<= %s %s) (<= %s %s))", r, r, a, r, b))
		}
	case token.OR, token.XOR, token.AND_NOT:
		if x.Op == token.OR {
			// x | 2^k for a constant single bit: exact arithmetic (x already has the bit, or gains it)
			for _, pair := range [][2]ssa.Value{{x.X, x.Y}, {x.Y, x.X}} {
				if k, ok := constInt(pair[1]); ok && k.Sign() > 0 && new(big.Int).And(k, new(big.Int).Sub(k, big.NewInt(1))).Sign() == 0 {
					e.setVal(x, orBitTerm(e.val(pair[0]), k.String()))
					return
				}
			}
		}
		f := map[token.Token]string{token.OR: "bitor", token.XOR: "bitxor", token.AND_NOT: "bitandnot"}[x.Op]
		if f == "bitandnot" {
			e.declareFun("bitandnot", "(Int Int) Int")
		}
		r := fmt.Sprintf("(%s %s %s)", f, a, b)
		e.setVal(x, r)
		e.assumeAll(e.facts(e.val(x), x.Type(), false))
	default:
		panic("unsupported binop " + x.Op.String())
	}
}

// orBitTerm: x | bit for non-negative x and a power of two.
func orBitTerm(x, bit string) string {
	return fmt.Sprintf("(ite (= (mod (div %s %s) 2) 1) %s (+ %s %s))", x, bit, x, x, bit)
}

func (e *enc) eqTerm(a, b string, t types.Type) string {
	if _, ok := t.Underlying().(*types.Slice); ok {
		// only comparison with nil is legal
		if a == "nilslice" {
			return fmt.Sprintf("(= (sarr %s) null)", b)
		}
		return fmt.Sprintf("(= (sarr %s) null)", a)
	}
	return eq(a, b)
}

func (e *enc) convert(st *State, x *ssa.Convert) {
	from, to := x.X.Type(), x.Type()
	v := e.val(x.X)
	switch {
	case isInteger(from) && isInteger(to):
		lo, hi, uns, ok := intRange(to)
		flo, fhi, _, fok := intRange(from)
		if !ok || (fok && flo.Cmp(lo) >= 0 && fhi.Cmp(hi) <= 0) || !fok {
			if !fok && ok {
				// untyped constant: exact
			}
			e.vals[x] = []string{v}
			return
		}
		m := new(big.Int).Add(new(big.Int).Sub(hi, lo), big.NewInt(1)).String()
		if uns {
			e.setVal(x, fmt.Sprintf("(mod %s %s)", v, m))
		} else {
			// signed wrap: ((v - lo) mod m) + lo
			e.setVal(x, fmt.Sprintf("(+ (mod (- %s %s) %s) %s)", v, numBig(lo), m, numBig(lo)))
		}
	case isInteger(from) && isFloat(to):
		e.setVal(x, fmt.Sprintf("(to_real %s)", v))
	case isFloat(from) && isInteger(to):
		n := e.fresh("f2i", "Int")
		e.assumeAll(e.facts(n, to, false))
		e.vals[x] = []string{n}
	case isFloat(from) && isFloat(to):
		e.vals[x] = []string{v}
	case isString(to):
		// []byte/[]rune/rune -> string
		n := e.fresh("str", "Str")
		e.assume(fmt.Sprintf("(>= (strlen %s) 0)", n))
		if sl, ok := from.Underlying().(*types.Slice); ok {
			if b, ok := sl.Elem().Underlying().(*types.Basic); ok && b.Kind() == types.Uint8 {
				e.assume(fmt.Sprintf("(= (strlen %s) (slen %s))", n, v))
			}
		}
		e.vals[x] = []string{n}
	case isString(from):
		// string -> []byte / []rune
		n := e.fresh("bytes", "Slice")
		arr := e.newObjRef()
		e.assume(fmt.Sprintf("(= %s (mkslice %s 0 (slen %s) (scap %s)))", n, arr, n, n))
		e.assume(fmt.Sprintf("(wfslice %s)", n))
		if sl, ok := to.Underlying().(*types.Slice); ok {
			if b, ok := sl.Elem().Underlying().(*types.Basic); ok && b.Kind() == types.Uint8 {
				e.assume(fmt.Sprintf("(= (slen %s) (strlen %s))", n, v))
			} else {
				e.assume(fmt.Sprintf("(<= (slen %s) (strlen %s))", n, v))
			}
		}
		e.vals[x] = []string{n}
	default:
		// pointer <-> unsafe.Pointer etc.
		if sortOf(from) == sortOf(to) {
			e.vals[x] = []string{v}
		} else {
			e.vals[x] = []string{e.fresh("conv", sortOf(to))}
		}
	}
}

func (e *enc) makeInterface(x *ssa.MakeInterface) {
	t := x.X.Type()
	id := e.typeID(t)
	s := sortOf(t)
	fn := fmt.Sprintf("mkiface_%d", id)
	un := fmt.Sprintf("ival_%d", id)
	e.declareFun(fn, fmt.Sprintf("(%s) Iface", s))
	e.declareFun(un, fmt.Sprintf("(Iface) %s", s))
	v := e.val(x.X)
	r := fmt.Sprintf("(%s %s)", fn, v)
	e.assert(fmt.Sprintf("(and (not (= %s inil)) (= (itype %s) %d) (= (%s %s) %s))", r, r, id, un, r, v))
	e.setVal(x, r)
}

func (e *enc) typeAssert(st *State, x *ssa.TypeAssert) {
	v := e.val(x.X)
	var ok, res string
	if _, isI := x.AssertedType.Underlying().(*types.Interface); isI {
		ok = e.fresh("taok", "Bool")
		e.assert(implies(ok, fmt.Sprintf("(not (= %s inil))", v)))
		res = v
	} else {
		id := e.typeID(x.AssertedType)
		s := sortOf(x.AssertedType)
		un := fmt.Sprintf("ival_%d", id)
		e.declareFun(un, fmt.Sprintf("(Iface) %s", s))
		ok = fmt.Sprintf("(and (not (= %s inil)) (= (itype %s) %d))", v, v, id)
		res = fmt.Sprintf("(%s %s)", un, v)
	}
	if x.CommaOk {
		// zero value when !ok
		r := e.fresh("ta", sortOf(x.AssertedType))
		e.assert(fmt.Sprintf("(= %s (ite %s %s %s))", r, ok, res, e.zeroOf(x.AssertedType)))
		okc := e.fresh("taokc", "Bool")
		e.assert(eq(okc, ok))
		e.assumeAll(e.facts(r, x.AssertedType, true))
		e.vals[x] = []string{r, okc}
		return
	}
	txt := e.valText(x)
	e.oblige("typeassert", txt, ok, x.Pos(), txt)
	r := e.fresh("ta", sortOf(x.AssertedType))
	e.assert(eq(r, res))
	e.assumeAll(e.facts(r, x.AssertedType, true))
	e.vals[x] = []string{r}
}

func (e *enc) makeSlice(st *State, x *ssa.MakeSlice) {
	ln, cp := e.val(x.Len), e.val(x.Cap)
	txt := e.srcText(x.Pos(), func(n ast.Node) bool { _, ok := n.(*ast.CallExpr); return ok })
	if txt == "" {
		txt = "make"
	}
	e.oblige("makeslice", txt, fmt.Sprintf("(and (<= 0 %s) (<= %s %s))", ln, ln, cp), x.Pos(), txt)
	arr := e.newObjRef()
	et := x.Type().Underlying().(*types.Slice).Elem()
	es := sortOf(et)
	if isHeapScalar(es) {
		old := e.heap(st, es)
		nw := e.fresh("Mem_"+sortKey(es)+"_mk", "(Array Ref "+es+")")
		e.elemUpdate("true", nw, old, fmt.Sprintf("(= qb %s)", arr), e.zeroOf(et))
		e.setHeap(st, es, old, nw, heapUpd{elems: true})
	}
	e.setVal(x, fmt.Sprintf("(mkslice %s 0 %s %s)", arr, ln, cp))
}

func (e *enc) slice(st *State, x *ssa.Slice) {
	xv := e.val(x.X)
	txt := e.srcText(x.Pos(), func(n ast.Node) bool { _, ok := n.(*ast.SliceExpr); return ok })
	if txt == "" {
		txt = e.valText(x)
	}
	lo := "0"
	if x.Low != nil {
		lo = e.val(x.Low)
	}
	switch u := x.X.Type().Underlying().(type) {
	case *types.Slice:
		hi := fmt.Sprintf("(slen %s)", xv)
		if x.High != nil {
			hi = e.val(x.High)
		}
		mx := fmt.Sprintf("(scap %s)", xv)
		if x.Max != nil {
			mx = e.val(x.Max)
			e.oblige("bounds", txt, fmt.Sprintf("(and (<= 0 %s) (<= %s %s) (<= %s %s) (<= %s (scap %s)))", lo, lo, hi, hi, mx, mx, xv), x.Pos(), txt)
		} else {
			e.oblige("bounds", txt, fmt.Sprintf("(and (<= 0 %s) (<= %s %s) (<= %s (scap %s)))", lo, lo, hi, hi, xv), x.Pos(), txt)
		}
		e.setVal(x, fmt.Sprintf("(mkslice (sarr %s) (+ (soff %s) %s) (- %s %s) (- %s %s))", xv, xv, lo, hi, lo, mx, lo))
	case *types.Basic: // string
		hi := fmt.Sprintf("(strlen %s)", xv)
		if x.High != nil {
			hi = e.val(x.High)
		}
		e.oblige("bounds", txt, fmt.Sprintf("(and (<= 0 %s) (<= %s %s) (<= %s (strlen %s)))", lo, lo, hi, hi, xv), x.Pos(), txt)
		r := fmt.Sprintf("(substr %s %s %s)", xv, lo, hi)
		e.setVal(x, r)
		e.assume(fmt.Sprintf("(= (strlen %s) (- %s %s))", e.val(x), hi, lo))
	case *types.Pointer: // *array
		e.nilCheck(x.X, xv, x.Pos())
		n := u.Elem().Underlying().(*types.Array).Len()
		hi := fmt.Sprint(n)
		if x.High != nil {
			hi = e.val(x.High)
		}
		mx := fmt.Sprint(n)
		if x.Max != nil {
			mx = e.val(x.Max)
		}
		e.oblige("bounds", txt, fmt.Sprintf("(and (<= 0 %s) (<= %s %s) (<= %s %s) (<= %s %d))", lo, lo, hi, hi, mx, mx, n), x.Pos(), txt)
		e.setVal(x, fmt.Sprintf("(mkslice %s %s (- %s %s) (- %s %s))", xv, lo, hi, lo, mx, lo))
	default:
		panic("slice of " + x.X.Type().String())
	}
}

func (e *enc) indexAddr(st *State, x *ssa.IndexAddr) {
	xv := e.val(x.X)
	iv := e.val(x.Index)
	txt := e.srcText(x.Pos(), isIndexLike)
	if txt == "" {
		txt = e.valText(x)
	}
	if rs, ok := e.p.nodeAt(e.fn, x.Pos(), isIndexLike).(*ast.RangeStmt); ok && rs != nil {
		txt = "range " + normText(e.p.source(rs.X.Pos(), rs.X.End()))
	}
	switch u := x.X.Type().Underlying().(type) {
	case *types.Slice:
		e.oblige("bounds", txt, fmt.Sprintf("(and (<= 0 %s) (< %s (slen %s)))", iv, iv, xv), x.Pos(), txt)
		if off := slicePart(xv, 1); off == "0" {
			e.setVal(x, e.mkElem(slicePart(xv, 0), iv))
		} else {
			e.setVal(x, e.mkElem(slicePart(xv, 0), fmt.Sprintf("(+ %s %s)", off, iv)))
		}
		e.elemAddr[e.val(x)] = true
	case *types.Pointer:
		e.nilCheck(x.X, xv, x.Pos())
		n := u.Elem().Underlying().(*types.Array).Len()
		e.oblige("bounds", txt, fmt.Sprintf("(and (<= 0 %s) (< %s %d))", iv, iv, n), x.Pos(), txt)
		e.setVal(x, e.mkElem(xv, iv))
	default:
		panic("indexaddr of " + x.X.Type().String())
	}
}

// ---- maps ----------------------------------------------------------------------------------

func (e *enc) mapCells(st *State, mt *types.Map) (dom, val string) {
	ks, vs := sortOf(mt.Key()), sortOf(mt.Elem())
	dom = "MapD_" + sortKey(ks) + "_" + sortKey(vs)
	val = "MapV_" + sortKey(ks) + "_" + sortKey(vs)
	e.cellSortOf[dom] = fmt.Sprintf("(Array Ref (Array %s Bool))", ks)
	e.cellSortOf[val] = fmt.Sprintf("(Array Ref (Array %s %s))", ks, vs)
	return
}

func (e *enc) mapCellSort(c string) string { return e.cellSortOf[c] }

func (e *enc) lookup(st *State, x *ssa.Lookup) {
	xv, k := e.val(x.X), e.val(x.Index)
	mt, isMap := x.X.Type().Underlying().(*types.Map)
	if !isMap { // string index
		txt := e.valText(x)
		e.oblige("bounds", txt, fmt.Sprintf("(and (<= 0 %s) (< %s (strlen %s)))", k, k, xv), x.Pos(), txt)
		n := fmt.Sprintf("(strat %s %s)", xv, k)
		e.assume(fmt.Sprintf("(and (<= 0 %s) (<= %s 255))", n, n))
		e.setVal(x, n)
		return
	}
	d, v := e.mapCells(st, mt)
	in := fmt.Sprintf("(and (not (= %s null)) (select (select %s %s) %s))", xv, e.get(st, d, e.mapCellSort(d)), xv, k)
	val := fmt.Sprintf("(ite %s (select (select %s %s) %s) %s)", in, e.get(st, v, e.mapCellSort(v)), xv, k, e.zeroOf(mt.Elem()))
	r := e.fresh("mapval", sortOf(mt.Elem()))
	e.assert(eq(r, val))
	e.assumeAll(e.facts(r, mt.Elem(), false))
	if x.CommaOk {
		okc := e.fresh("mapok", "Bool")
		e.assert(eq(okc, in))
		e.vals[x] = []string{r, okc}
	} else {
		e.vals[x] = []string{r}
	}
}

func (e *enc) next(st *State, x *ssa.Next) {
	rng := x.Iter.(*ssa.Range)
	ok := e.fresh("nextok", "Bool")
	if x.IsString {
		s := e.val(rng.X)
		k := e.fresh("ri", "Int")
		v := e.fresh("rune", "Int")
		e.assume(implies(ok, fmt.Sprintf("(and (<= 0 %s) (< %s (strlen %s)) (<= 0 %s) (<= %s 1114111))", k, k, s, v, v)))
		e.vals[x] = []string{ok, k, v}
		return
	}
	mt := rng.X.Type().Underlying().(*types.Map)
	m := e.val(rng.X)
	d, vv := e.mapCells(st, mt)
	k := e.fresh("mk", sortOf(mt.Key()))
	v := e.fresh("mv", sortOf(mt.Elem()))
	e.assume(implies(ok, fmt.Sprintf("(and (not (= %s null)) (select (select %s %s) %s) (= %s (select (select %s %s) %s)))",
		m, e.get(st, d, e.mapCellSort(d)), m, k, v, e.get(st, vv, e.mapCellSort(vv)), m, k)))
	e.assumeAll(e.facts(k, mt.Key(), false))
	e.assumeAll(e.facts(v, mt.Elem(), false))
	e.vals[x] = []string{ok, k, v}
}

func (e *enc) selectInstr(st *State, x *ssa.Select) {
	e.syncPoint(st, "select")
	idx := e.fresh("selidx", "Int")
	lo := 0
	if !x.Blocking {
		lo = -1
	}
	e.assume(fmt.Sprintf("(and (<= %s %s) (< %s %d))", num(int64(lo)), idx, idx, len(x.States)))
	res := []string{idx, e.fresh("selok", "Bool")}
	for k, s := range x.States {
		if s.Dir == types.SendOnly {
			e.sendClauses(st, s.Chan, s.Send, s.Pos)
			e.countSend(st, s.Chan, fmt.Sprintf("(= %s %d)", idx, k))
		}
		// "recv <chan> flag <name>": ghost boolean that becomes true when this case is taken
		if s.Dir == types.RecvOnly && e.c != nil {
			for _, cc := range e.c.calls["recv:"+e.valText(s.Chan)] {
				if cc.kind == "flag" {
					gc := e.ghostCellFor(cc.name, SVal{sort: "Bool"})
					e.declare(gc.cell+"_0", "Bool")
					e.assertOnce("(not " + gc.cell + "_0)")
					old := e.get(st, gc.cell, "Bool")
					st.cells[gc.cell] = fmt.Sprintf("(or %s (= %s %d))", old, idx, k)
				}
			}
		}
		if s.Dir == types.RecvOnly {
			e.countRecv(st, s.Chan, fmt.Sprintf("(= %s %d)", idx, k))
			et := s.Chan.Type().Underlying().(*types.Chan).Elem()
			v := e.fresh("selrecv", sortOf(et))
			e.assumeAll(e.facts(v, et, true))
			e.recvAssume(st, s.Chan, v, et)
			res = append(res, v)
		}
	}
	e.vals[x] = res
}

// recvAssume applies "recv <chan> assume <expr over $val>" clauses: a rely on what senders put on
// the channel (to be matched by "send ... assert" obligations at every sender).
func (e *enc) recvAssume(st *State, ch ssa.Value, v string, et types.Type) {
	if e.c == nil {
		return
	}
	name := "recv:" + e.valText(ch)
	for site, clauses := range e.c.calls {
		if site != name && !strings.HasPrefix(site, name+"#") {
			continue
		}
		for _, cc := range clauses {
			if cc.kind != "assume" {
				continue
			}
			env := e.envFor(st, e.entry)
			env.bound["$val"] = SVal{t: v, typ: et, sort: sortOf(et)}
			e.assume(e.evalBool(cc.expr, env, "receive assumption "+site))
			e.note("rely on senders of channel " + e.valText(ch) + ": " + cc.text)
		}
	}
}

// syncPoint: other goroutines started by this function may have run.
func (e *enc) syncPoint(st *State, tag string) {
	if e.volatile.size() > 0 {
		e.havoc(st, e.volatile, "v"+tag)
	}
}

func shortType(t types.Type) string {
	return types.TypeString(t, func(*types.Package) string { return "" })
}

var _ = strings.TrimSpace
