package main

import (
	"bytes"
	"context"
	"fmt"
	"os"
	"os/exec"
	"path/filepath"
	"strings"
	"sync"
	"time"
)

type Result struct {
	Status string // unsat | sat | unknown | timeout | error
	Solver string
	Secs   float64
	Model  string
	Output string
	All    map[string]string // solver -> status (thorough)
}

type Runner struct {
	dir      string
	timeout  time.Duration
	thorough bool
	mu       sync.Mutex
	wins     map[string]int
	secs     map[string]float64
	n        int
}

func newRunner(timeout time.Duration, thorough bool) (*Runner, error) {
	d, err := os.MkdirTemp("", "govc")
	if err != nil {
		return nil, err
	}
	return &Runner{dir: d, timeout: timeout, thorough: thorough, wins: map[string]int{}, secs: map[string]float64{}}, nil
}

func (r *Runner) close() { os.RemoveAll(r.dir) }

func structDecls() string {
	var sb strings.Builder
	for _, si := range structOrder {
		sb.WriteString(si.decl)
		sb.WriteString("\n")
	}
	return sb.String()
}

const prelude2 = `(define-fun protected ((r Ref)) Bool (and (< (root r) 0) (> (root r) (- 1000000))))
`

func queryText(vc *FuncVC, o *Obligation, withModel bool) string {
	if o.Raw != "" {
		return o.Raw
	}
	var sb strings.Builder
	sb.WriteString(prelude)
	sb.WriteString(prelude2)
	sb.WriteString(structDecls())
	for _, d := range vc.Decls {
		sb.WriteString(d)
		sb.WriteString("\n")
	}
	for _, a := range vc.Asserts[:o.NAsserts] {
		sb.WriteString("(assert ")
		sb.WriteString(a)
		sb.WriteString(")\n")
	}
	sb.WriteString("; obligation " + o.Name + "\n")
	if o.WantSat {
		sb.WriteString("(assert " + o.Guard + ")\n")
	} else {
		sb.WriteString("(assert " + and(o.Guard, not(o.Goal)) + ")\n")
	}
	sb.WriteString("(check-sat)\n")
	if withModel && len(vc.ModelVars) > 0 {
		sb.WriteString("(get-value (" + strings.Join(vc.ModelVars, " ") + "))\n")
	}
	return sb.String()
}

type solverSpec struct {
	name string
	args func(file string, secs int) []string
}

var solvers = []solverSpec{
	{"z3-new", func(f string, s int) []string { return []string{"z3-new", fmt.Sprintf("-T:%d", s), f} }},
	{"cvc5", func(f string, s int) []string {
		return []string{"cvc5", fmt.Sprintf("--tlimit=%d", s*1000), "--produce-models", f}
	}},
	{"z3", func(f string, s int) []string { return []string{"z3", fmt.Sprintf("-T:%d", s), f} }},
}

func runSolver(ctx context.Context, sp solverSpec, file string, secs int) (status, out string, dur float64) {
	args := sp.args(file, secs)
	cctx, cancel := context.WithTimeout(ctx, time.Duration(secs+3)*time.Second)
	defer cancel()
	cmd := exec.CommandContext(cctx, args[0], args[1:]...)
	var buf bytes.Buffer
	cmd.Stdout = &buf
	cmd.Stderr = &buf
	t0 := time.Now()
	_ = cmd.Run()
	dur = time.Since(t0).Seconds()
	out = buf.String()
	first := strings.TrimSpace(strings.SplitN(out, "\n", 2)[0])
	switch {
	case strings.HasPrefix(first, "(error") && !strings.Contains(first, "model is not available"):
		status = "error"
	case first == "unsat" || first == "sat" || first == "unknown":
		status = first
	case strings.Contains(first, "timeout") || cctx.Err() != nil || strings.Contains(out, "interrupted by timeout"):
		status = "timeout"
	default:
		status = "error"
	}
	return
}

func (r *Runner) solve(vc *FuncVC, o *Obligation) Result {
	r.mu.Lock()
	r.n++
	id := r.n
	r.mu.Unlock()
	file := filepath.Join(r.dir, fmt.Sprintf("q%d.smt2", id))
	if err := os.WriteFile(file, []byte(queryText(vc, o, true)), 0o644); err != nil {
		return Result{Status: "error", Output: err.Error()}
	}
	defer os.Remove(file)
	secs := int(r.timeout.Seconds())
	res := Result{All: map[string]string{}}
	record := func(name, st, out string, d float64) {
		r.mu.Lock()
		r.secs[name] += d
		r.mu.Unlock()
		res.All[name] = st
	}
	decisive := func(st string) bool { return st == "unsat" || st == "sat" }
	take := func(name, st, out string, d float64) {
		if res.Status == "" || (!decisive(res.Status) && decisive(st)) {
			res.Status, res.Solver, res.Secs, res.Output = st, name, d, out
			if st == "sat" {
				res.Model = out
			}
		}
	}
	ctx := context.Background()
	if !r.thorough {
		st, out, d := runSolver(ctx, solvers[0], file, secs)
		record(solvers[0].name, st, out, d)
		take(solvers[0].name, st, out, d)
		if decisive(st) {
			r.win(res.Solver)
			return res
		}
	}
	// race the remaining (quick) or all (thorough) solvers
	list := solvers[1:]
	if r.thorough {
		list = solvers
	}
	type ans struct {
		name, st, out string
		d             float64
	}
	ch := make(chan ans, len(list))
	cctx, cancel := context.WithCancel(ctx)
	defer cancel()
	for _, sp := range list {
		sp := sp
		go func() {
			st, out, d := runSolver(cctx, sp, file, secs)
			ch <- ans{sp.name, st, out, d}
		}()
	}
	for range list {
		a := <-ch
		record(a.name, a.st, a.out, a.d)
		take(a.name, a.st, a.out, a.d)
		if !r.thorough && decisive(a.st) {
			cancel()
			break
		}
	}
	if r.thorough {
		// disagreement check
		sawSat, sawUnsat := false, false
		for _, st := range res.All {
			if st == "sat" {
				sawSat = true
			}
			if st == "unsat" {
				sawUnsat = true
			}
		}
		if sawSat && sawUnsat {
			res.Status = "error"
			res.Output = fmt.Sprintf("solver disagreement: %v", res.All)
		}
	}
	if decisive(res.Status) {
		r.win(res.Solver)
	}
	return res
}

func (r *Runner) win(name string) {
	r.mu.Lock()
	r.wins[name]++
	r.mu.Unlock()
}

func runSolverFile(sp solverSpec, file string, secs int) (string, string, float64) {
	return runSolver(context.Background(), sp, file, secs)
}
