package main

import (
	"regexp"
	"go/constant"
	"fmt"
	"go/token"
	"go/types"
	"sort"
	"strings"

	"golang.org/x/tools/go/ssa"
)

type ghostCell struct {
	cell string
	sort string
	typ  types.Type
}

// protectedAlloc: a named local whose address never leaves this function except as a direct
// call argument or closure binding; such variables are untouched by callees that do not get them.
func (e *enc) protectedAlloc(a *ssa.Alloc) bool {
	if v, ok := e.protCache[a]; ok {
		return v
	}
	ok := true
	var chk func(v ssa.Value, depth int)
	chk = func(v ssa.Value, depth int) {
		if !ok || depth > 6 {
			ok = false
			return
		}
		refs := v.Referrers()
		if refs == nil {
			return
		}
		for _, r := range *refs {
			switch u := r.(type) {
			case *ssa.UnOp:
				if u.Op != token.MUL {
					ok = false
				}
			case *ssa.Store:
				if u.Val == v {
					ok = false
				}
			case *ssa.FieldAddr:
				chk(u, depth+1)
			case *ssa.IndexAddr:
				chk(u, depth+1)
			case *ssa.Call, *ssa.Defer, *ssa.DebugRef:
			case *ssa.Slice:
				// a slice of a local array is fine when it is only passed straight to calls
				if srefs := u.Referrers(); srefs != nil {
					for _, sr := range *srefs {
						switch sr.(type) {
						case *ssa.Call, *ssa.Defer, *ssa.DebugRef:
						default:
							ok = false
						}
					}
				}
			case *ssa.Go:
				ok = false
			case *ssa.MakeClosure:
				// the closure itself must only be called / passed directly
				if mrefs := u.Referrers(); mrefs != nil {
					for _, mr := range *mrefs {
						switch mu := mr.(type) {
						case *ssa.Call, *ssa.Defer:
						case *ssa.Store:
							if la, isA := mu.Addr.(*ssa.Alloc); !isA || !e.scalar[la] {
								ok = false
							}
						default:
							ok = false
						}
					}
				}
			default:
				ok = false
			}
		}
	}
	chk(a, 0)
	e.protCache[a] = ok
	return ok
}

func (e *enc) newAllocRefFor(a *ssa.Alloc) string {
	if e.protectedAlloc(a) {
		return e.newAllocRef()
	}
	return e.newObjRef()
}

// newObjRef: a fresh heap object (make/new/closure) or a leaked local.
func (e *enc) newObjRef() string {
	e.nObj++
	id := 1000000 + e.nObj
	t := fmt.Sprintf("(alloc (- %d))", id)
	e.assertOnce(fmt.Sprintf("(= (root %s) (- %d))", t, id))
	return t
}

func (e *enc) calleeShort(c *ssa.CallCommon) string {
	if c.IsInvoke() {
		return c.Method.Name()
	}
	switch v := stripVal(c.Value).(type) {
	case *ssa.Builtin:
		return v.Name()
	case *ssa.Function:
		return v.Name()
	case *ssa.MakeClosure:
		return strings.TrimSuffix(v.Fn.Name(), "$bound")
	}
	if fn, _ := e.p.resolveFuncValue(c.Value); fn != nil {
		return strings.TrimSuffix(fn.Name(), "$bound")
	}
	return e.valText(c.Value)
}

// calleeEnv builds the environment in which a callee's contract is evaluated at a call site.
func (e *enc) calleeEnv(st, old *State, fn *ssa.Function, ext *FuncContract, c *ssa.CallCommon, mc *ssa.MakeClosure, args []ssa.Value, results []string) *Env {
	env := &Env{e: e, st: st, old: old, bound: map[string]SVal{}, lvals: map[string]lval{}}
	if fn != nil {
		f := fn
		for f.Pkg == nil && f.Parent() != nil {
			f = f.Parent()
		}
		if f.Pkg != nil {
			env.tpkg = f.Pkg.Pkg
			env.pkg = f.Pkg.Pkg.Name()
		} else if o := fn.Object(); o != nil && o.Pkg() != nil {
			env.tpkg = o.Pkg()
			env.pkg = o.Pkg().Name()
		}
		for i, p := range fn.Params {
			if i < len(args) {
				env.bound[p.Name()] = SVal{t: e.val(args[i]), typ: args[i].Type(), sort: sortOf(args[i].Type())}
			}
		}
		if mc != nil {
			for i, fv := range fn.FreeVars {
				if i < len(mc.Bindings) {
					t := fv.Type().Underlying().(*types.Pointer).Elem()
					env.lvals[fv.Name()] = lval{addr: e.val(mc.Bindings[i]), typ: t}
				}
			}
		}
		res := fn.Signature.Results()
		for j := 0; j < res.Len() && j < len(results); j++ {
			sv := SVal{t: results[j], typ: res.At(j).Type(), sort: sortOf(res.At(j).Type())}
			env.bound[fmt.Sprintf("ret%d", j)] = sv
			if nm := res.At(j).Name(); nm != "" && nm != "_" {
				env.bound[nm] = sv
			}
			if res.Len() == 1 {
				env.bound["result"] = sv
			}
		}
	}
	if ext != nil && ext.extern {
		env.pkg = ext.pkg
		all := args
		if c != nil && c.IsInvoke() {
			all = append([]ssa.Value{c.Value}, args...)
		}
		for i, pn := range ext.params {
			if i < len(all) {
				env.bound[pn] = SVal{t: e.val(all[i]), typ: all[i].Type(), sort: sortOf(all[i].Type())}
			}
		}
		var rt *types.Tuple
		if c != nil {
			rt = c.Signature().Results()
		}
		for j, rn := range ext.results {
			if j < len(results) {
				sv := SVal{t: results[j], sort: "Int"}
				if rt != nil && j < rt.Len() {
					sv.typ = rt.At(j).Type()
					sv.sort = sortOf(sv.typ)
				}
				env.bound[rn] = sv
				env.bound[fmt.Sprintf("ret%d", j)] = sv
			}
		}
	}
	// the callee's ghost definitions are expressions over its entry state
	if ext != nil {
		for _, g := range ext.ghosts {
			func() {
				defer func() { recover() }()
				env2 := *env
				env2.st = old
				env.bound[g.name] = e.evalSpec(g.expr, &env2)
			}()
		}
	}
	return env
}

func (e *enc) call(st *State, c *ssa.CallCommon, ins ssa.Instruction, pos token.Pos, mode string) []string {
	if b, ok := stripVal(c.Value).(*ssa.Builtin); ok {
		return e.builtin(st, b, c, ins, pos)
	}
	e.syncPoint(st, "call")
	short := e.calleeShort(c)
	site := fmt.Sprintf("%s#%d", short, e.siteOrdinal(ins, short))

	var fn *ssa.Function
	var mc *ssa.MakeClosure
	var contract *FuncContract
	args := c.Args
	if c.IsInvoke() {
		recv := e.val(c.Value)
		txt := e.valText(c.Value) + "." + c.Method.Name()
		e.oblige("nil", txt, fmt.Sprintf("(not (= %s inil))", recv), pos, txt)
		contract = e.p.externs[ifaceKey(c.Value.Type(), c.Method.Name())]
	} else {
		fn, mc = e.p.resolveFuncValue(c.Value)
		if fn != nil {
			target := e.p.unwrapSynthetic(fn)
			if target != fn {
				// bound method wrapper: receiver is the binding
				if mc != nil && len(mc.Bindings) == 1 {
					args = append([]ssa.Value{mc.Bindings[0]}, c.Args...)
					mc = nil
				}
				fn = target
			}
			contract = e.p.contracts[e.p.qname(fn)]
			if contract == nil {
				contract = e.p.externs[externKeyOf(fn)]
			}
			// implicit precondition: pointer receiver non-nil
			if fn.Signature.Recv() != nil && len(args) > 0 && e.p.isDatamon(fn) {
				if _, isPtr := args[0].Type().Underlying().(*types.Pointer); isPtr {
					e.nilCheck(args[0], e.val(args[0]), pos)
				}
			}
		} else {
			fv := e.val(c.Value)
			txt := e.valText(c.Value)
			e.oblige("nil", txt+"()", fmt.Sprintf("(not (= %s null))", fv), pos, txt)
		}
	}
	for _, a := range args {
		_ = e.valN(a)
	}

	// sequential lock discipline (no race analysis): a sync.Mutex is unlocked only while held by this
	// activation and not locked twice; state is tracked per mutex address term
	if fn != nil && len(args) > 0 {
		switch externKeyOf(fn) {
		case "sync.(*Mutex).Lock", "sync.(*Mutex).Unlock", "sync.(*RWMutex).Lock", "sync.(*RWMutex).Unlock":
			addr := e.val(args[0])
			cell := "Held_" + sanitize(addr)
			if len(cell) > 60 {
				cell = fmt.Sprintf("Held_%d_%s", len(addr), sanitize(addr)[len(sanitize(addr))-40:])
			}
			e.cellSortOf[cell] = "Bool"
			if _, known := st.cells[cell]; !known {
				// unknown at first use: whatever the caller left (free), recorded from now on
				st.cells[cell] = e.get(st, cell, "Bool")
			}
			held := st.cells[cell]
			txt := e.valText(args[0])
			if strings.HasSuffix(externKeyOf(fn), ".Lock") {
				if e.lockTouched[cell] {
					e.oblige("lock", "relock:"+txt, not(held), pos, "Lock() of a mutex this function already holds")
				}
				st.cells[cell] = "true"
			} else {
				if e.lockTouched[cell] {
					e.oblige("lock", "unlock:"+txt, held, pos, "Unlock() of a mutex that is not held")
				}
				st.cells[cell] = "false"
			}
			e.lockTouched[cell] = true
		}
	}

	pre := st.clone()
	// caller-side call-site assertions and callee preconditions
	if contract != nil {
		cenv := e.calleeEnv(st, pre, fn, contract, c, mc, args, nil)
		for i, r := range contract.requires {
			g := e.evalBool(r.expr, cenv, "precondition of "+short)
			e.oblige("pre", fmt.Sprintf("%s:%s", site, clauseKey(r, i)), g, pos, r.text)
		}
	}
	if e.c != nil {
		for _, cc := range e.c.calls[site] {
			if cc.kind != "assert" {
				continue
			}
			env := e.envFor(st, e.entry)
			e.bindDollar(env, fn, c, args, nil)
			var g string
			if e.firstPass {
				// ghost cells bound at call sites encoded later are not known yet (the second pass has them)
				var ok bool
				if g, ok = e.tryEvalBool(cc.expr, env, "call-site assertion "+site); !ok {
					continue
				}
			} else {
				g = e.evalBool(cc.expr, env, "call-site assertion "+site)
			}
			key := cc.label
			if key == "" {
				key = "assert"
			}
			e.oblige("callsite", fmt.Sprintf("%s:%s", site, key), g, pos, cc.text)
		}
	}

	// effects
	ms := newModSet()
	ms.precise = true
	e.p.callMods(ms, c)
	lm := &localMods{cells: map[*ssa.Alloc]bool{}, allocs: map[*ssa.Alloc]bool{}}
	e.callLocalMods(c, lm)
	if e.c != nil {
		for _, cc := range e.c.calls[site] {
			if cc.kind == "pure" {
				ms = newModSet()
				lm = &localMods{cells: map[*ssa.Alloc]bool{}, allocs: map[*ssa.Alloc]bool{}}
				e.note("assumed at call site " + site + ": the call has no effect on memory or stores")
			}
		}
	}
	if mode == "defer" {
		// handled by runDefers (which calls us with mode "call")
	}
	e.havoc(st, ms, "c"+sanitize(site))
	e.havocLocals(st, lm, "c"+sanitize(site))
	e.havocCells(st, ms, "c"+sanitize(site))
	if ms.all {
		e.note("call to " + short + " has an unknown callee: whole heap havocked")
	}
	if mode == "go" {
		e.volatile.merge(ms)
		for a := range lm.allocs {
			e.volatileLocals[a] = true
		}
		return nil
	}

	// results
	sig := c.Signature()
	var results []string
	pureTerms := e.pureCallTerms(st, c, fn, args)
	if fn != nil && externKeyOf(fn) == "fmt.Sprint" {
		if t, ok := e.sprintTerm(c); ok {
			pureTerms = []string{t}
		}
	}
	for j := 0; j < sig.Results().Len(); j++ {
		rt := sig.Results().At(j).Type()
		n := e.fresh(fmt.Sprintf("r_%s_%d", sanitize(site), j), sortOf(rt))
		e.assumeAll(e.facts(n, rt, true))
		if pureTerms != nil {
			// deterministic, side-effect free callee: its result is a function of arguments (and heap)
			e.assert(eq(n, pureTerms[j]))
		}
		results = append(results, n)
	}
	if fn != nil && externKeyOf(fn) == "fmt.Errorf" && len(results) == 1 {
		// fmt.Errorf with a constant format: the verb %w keeps the wrapped error in the chain errors.Is walks
		// (errIs(result, t) follows from errIs(wrapped, t)); without %w nothing is known about the chain of
		// the new error (it is NOT assumed to satisfy errors.Is for any sentinel).
		if w, ok := errorfWrapped(c); ok {
			e.note("fmt.Errorf: a %w verb keeps the errors.Is chain of the wrapped error (assumed of the standard library); nothing is assumed about errors built without %w")
			e.declareFun("spec_errIs", "(Iface Iface) Bool")
			e.assume(fmt.Sprintf("(forall ((et Iface)) (! (=> (spec_errIs %s et) (spec_errIs %s et)) :pattern ((spec_errIs %s et))))", e.val(w), results[0], results[0]))
		}
	}
	if contract != nil {
		cenv := e.calleeEnv(st, pre, fn, contract, c, mc, args, results)
		for _, en := range contract.ensures {
			// postconditions that mention the callee's internal ghost bindings are not exported
			if g, ok := e.tryEvalBool(en.expr, cenv, "postcondition of "+short); ok {
				e.assume(g)
			}
		}
		for _, en := range contract.postAssumed {
			e.assume(e.evalBool(en.expr, cenv, "assumed postcondition of "+short))
		}
	}
	if e.c != nil {
		for _, cc := range e.c.calls[site] {
			env := e.envFor(st, pre)
			e.bindDollar(env, fn, c, args, results)
			switch cc.kind {
			case "bind":
				v := e.evalSpec(cc.expr, env)
				gc := e.ghostCellFor(cc.name, v)
				st.cells[gc.cell] = v.t
				st.cells[gc.cell+"_set"] = "true"
			case "assume":
				e.assume(e.evalBool(cc.expr, env, "call-site assumption "+site))
				e.note("assumed at call site " + site + ": " + cc.text)
			}
		}
	}
	if sig.Results().Len() == 0 {
		return nil
	}
	return results
}

// pureCallTerms: for a deterministic, effect-free datamon callee (or interface method whose datamon
// implementations all are), the results as uninterpreted functions of the arguments and, when the
// callee reads memory, of the current heap.
func (e *enc) pureCallTerms(st *State, c *ssa.CallCommon, fn *ssa.Function, args []ssa.Value) []string {
	var name string
	hs := newModSet()
	all := args
	if c.IsInvoke() {
		it, _ := c.Value.Type().Underlying().(*types.Interface)
		if it == nil || !isDatamonType(c.Value.Type()) {
			return nil
		}
		impls := e.p.implementations(it, c.Method.Name())
		if len(impls) == 0 {
			return nil
		}
		for _, f := range impls {
			if !e.p.isDet(f) {
				return nil
			}
			hs.merge(e.p.mods[e.p.unwrapSynthetic(f)])
		}
		name = "pure_" + sanitize(ifaceKey(c.Value.Type(), c.Method.Name()))
		all = append([]ssa.Value{c.Value}, args...)
	} else {
		if fn != nil && !e.p.isDatamon(fn) && isDetExternal(fn) && fn.Signature.Recv() == nil {
			// deterministic library function over plain values (strings.HasPrefix, path.Base, ...)
			for _, a := range args {
				switch sortOf(a.Type()) {
				case "Int", "Bool", "Str":
				default:
					return nil
				}
			}
			if !valueLike(fn.Signature.Results()) {
				return nil
			}
			return e.pureTerms(st, "pure_"+sanitize(externKeyOf(fn)), c.Signature(), args, nil)
		}
		if fn == nil || !e.p.isDatamon(fn) || !e.p.isDet(fn) {
			return nil
		}
		name = "pure_" + sanitize(e.p.qname(fn))
		hs.merge(e.p.mods[e.p.unwrapSynthetic(fn)])
	}
	return e.pureTerms(st, name, c.Signature(), all, hs.footprints())
}

func (e *enc) pureTerms(st *State, name string, sig *types.Signature, args []ssa.Value, heapArgs []footprint) []string {
	var asorts, aterms []string
	for _, a := range args {
		ts := e.valN(a)
		if len(ts) != 1 {
			return nil
		}
		if strings.Contains(ts[0], "(alloc (- ") && len(heapArgs) > 0 {
			return nil // the callee may read this activation's local memory
		}
		asorts = append(asorts, sortOf(a.Type()))
		aterms = append(aterms, ts[0])
	}
	for _, fp := range heapArgs {
		t, s := e.heapArgTerm(st, fp)
		asorts = append(asorts, s)
		aterms = append(aterms, t)
	}
	var out []string
	for j := 0; j < sig.Results().Len(); j++ {
		fnm := fmt.Sprintf("%s_%d", name, j)
		rs := sortOf(sig.Results().At(j).Type())
		if len(aterms) == 0 {
			e.declare(fnm, rs)
			out = append(out, fnm)
			continue
		}
		e.declareFun(fnm, fmt.Sprintf("(%s) %s", strings.Join(asorts, " "), rs))
		out = append(out, fmt.Sprintf("(%s %s)", fnm, strings.Join(aterms, " ")))
	}
	return out
}

// heapNamed returns a short name for the current heap term of a sort.
func (e *enc) heapNamed(st *State, sort string) string {
	t := e.heap(st, sort)
	if len(t) > 60 {
		n := e.fresh("Mem_"+sortKey(sort)+"_n", "(Array Ref "+sort+")")
		e.assert(eq(n, t))
		st.cells[heapCell(sort)] = n
		return n
	}
	return t
}

func (e *enc) ghostCellFor(name string, v SVal) *ghostCell {
	if gc, ok := e.ghostCells[name]; ok {
		return gc
	}
	gc := &ghostCell{cell: "G_" + sanitize(name), sort: v.sort, typ: v.typ}
	e.ghostCells[name] = gc
	e.cellSortOf[gc.cell] = v.sort
	e.cellSortOf[gc.cell+"_set"] = "Bool"
	e.ghostCells[name+"_set"] = &ghostCell{cell: gc.cell + "_set", sort: "Bool"}
	// on paths where the call did not happen the flag is false
	e.declare(gc.cell+"_set_0", "Bool")
	e.assertOnce("(not " + gc.cell + "_set_0)")
	return gc
}

// bindDollar makes $param / $0.. / $ret0.. available in caller-side call clauses.
func (e *enc) bindDollar(env *Env, fn *ssa.Function, c *ssa.CallCommon, args []ssa.Value, results []string) {
	all := args
	if c.IsInvoke() {
		all = append([]ssa.Value{c.Value}, args...)
	}
	for i, a := range all {
		sv := SVal{t: e.val(a), typ: a.Type(), sort: sortOf(a.Type())}
		env.bound[fmt.Sprintf("$%d", i)] = sv
		if fn != nil && i < len(fn.Params) {
			env.bound["$"+fn.Params[i].Name()] = sv
		}
	}
	if c.IsInvoke() {
		if sg, ok := c.Method.Type().(*types.Signature); ok {
			for i := 0; i < sg.Params().Len() && i < len(args); i++ {
				if nm := sg.Params().At(i).Name(); nm != "" {
					env.bound["$"+nm] = SVal{t: e.val(args[i]), typ: args[i].Type(), sort: sortOf(args[i].Type())}
				}
			}
		}
	}
	var ext *FuncContract
	if c.IsInvoke() {
		ext = e.p.externs[ifaceKey(c.Value.Type(), c.Method.Name())]
	} else if fn != nil {
		ext = e.p.externs[externKeyOf(fn)]
	}
	if ext != nil {
		for i, pn := range ext.params {
			if i < len(all) {
				env.bound["$"+pn] = SVal{t: e.val(all[i]), typ: all[i].Type(), sort: sortOf(all[i].Type())}
			}
		}
	}
	sig := c.Signature()
	for j, r := range results {
		rt := sig.Results().At(j).Type()
		env.bound[fmt.Sprintf("$ret%d", j)] = SVal{t: r, typ: rt, sort: sortOf(rt)}
	}
}

func (e *enc) runDefers(st *State) {
	for i := len(e.defers) - 1; i >= 0; i-- {
		d := e.defers[i]
		armed, ok := st.cells[d.armed]
		if !ok || armed == "false" {
			continue
		}
		before := st.clone()
		saved := e.reach
		e.reach = and(e.reach, armed)
		e.call(st, &d.ins.Call, d.ins, d.ins.Pos(), "call")
		e.reach = saved
		if armed != "true" {
			// merge: cells take the post-call value only when armed
			for _, k := range sortedKeys(st.cells) {
				nv := st.cells[k]
				ov, had := before.cells[k]
				if !had {
					ov = e.initialFor(k, before)
				}
				if nv != ov {
					st.cells[k] = fmt.Sprintf("(ite %s %s %s)", armed, nv, ov)
				}
			}
		}
	}
}

func (e *enc) builtin(st *State, b *ssa.Builtin, c *ssa.CallCommon, ins ssa.Instruction, pos token.Pos) []string {
	arg := func(i int) string { return e.val(c.Args[i]) }
	// call-site assertions may be attached to append / copy / delete ("call append#k assert ...")
	if e.c != nil && (b.Name() == "append" || b.Name() == "copy" || b.Name() == "delete") {
		site := fmt.Sprintf("%s#%d", b.Name(), e.siteOrdinal(ins, b.Name()))
		for _, cc := range e.c.calls[site] {
			if cc.kind != "assert" {
				continue
			}
			env := e.envFor(st, e.entry)
			for i, a := range c.Args {
				if ts := e.valN(a); len(ts) == 1 {
					env.bound[fmt.Sprintf("$%d", i)] = SVal{t: ts[0], typ: a.Type(), sort: sortOf(a.Type())}
				}
			}
			key := cc.label
			if key == "" {
				key = "assert"
			}
			e.oblige("callsite", fmt.Sprintf("%s:%s", site, key), e.evalBool(cc.expr, env, "call-site assertion "+site), pos, cc.text)
		}
	}
	switch b.Name() {
	case "len":
		t := c.Args[0].Type().Underlying()
		switch u := t.(type) {
		case *types.Slice:
			return []string{fmt.Sprintf("(slen %s)", arg(0))}
		case *types.Basic:
			return []string{fmt.Sprintf("(strlen %s)", arg(0))}
		case *types.Map:
			return []string{e.mapLen(st, u, arg(0))}
		case *types.Array:
			return []string{fmt.Sprint(u.Len())}
		case *types.Pointer:
			return []string{fmt.Sprint(u.Elem().Underlying().(*types.Array).Len())}
		case *types.Chan:
			n := e.fresh("chanlen", "Int")
			e.declareFun("chancap", "(Ref) Int")
			e.assume(fmt.Sprintf("(and (<= 0 %s) (<= %s (chancap %s)))", n, n, arg(0)))
			return []string{n}
		}
	case "cap":
		switch u := c.Args[0].Type().Underlying().(type) {
		case *types.Slice:
			return []string{fmt.Sprintf("(scap %s)", arg(0))}
		case *types.Chan:
			e.declareFun("chancap", "(Ref) Int")
			t := fmt.Sprintf("(chancap %s)", arg(0))
			e.assume(fmt.Sprintf("(>= %s 0)", t))
			return []string{t}
		case *types.Array:
			return []string{fmt.Sprint(u.Len())}
		case *types.Pointer:
			return []string{fmt.Sprint(u.Elem().Underlying().(*types.Array).Len())}
		}
	case "append":
		return []string{e.appendBuiltin(st, c)}
	case "copy":
		return []string{e.copyBuiltin(st, c)}
	case "delete":
		mt := c.Args[0].Type().Underlying().(*types.Map)
		d, _ := e.mapCells(st, mt)
		m := arg(0)
		dm := e.get(st, d, e.mapCellSort(d))
		st.cells[d] = fmt.Sprintf("(store %s %s (store (select %s %s) %s false))", dm, m, dm, m, arg(1))
		return nil
	case "close":
		e.syncPoint(st, "close")
		return nil
	case "panic":
		e.oblige("nopanic", "panic", "false", pos, "panic")
		return nil
	case "recover":
		return []string{e.fresh("recovered", "Iface")}
	case "print", "println":
		return nil
	case "min", "max":
		f := "imin"
		if b.Name() == "max" {
			f = "imax"
		}
		r := arg(0)
		for i := 1; i < len(c.Args); i++ {
			r = fmt.Sprintf("(%s %s %s)", f, r, arg(i))
		}
		return []string{r}
	case "ssa:wrapnilchk":
		return []string{arg(0)}
	case "ssa:deferstack":
		return []string{"0"}
	}
	panic("unsupported builtin " + b.Name())
}

func (e *enc) appendBuiltin(st *State, c *ssa.CallCommon) string {
	s0 := e.val(c.Args[0])
	sl := c.Args[0].Type().Underlying().(*types.Slice)
	et := sl.Elem()
	es := sortOf(et)
	if len(c.Args) < 2 {
		return s0
	}
	// name the operands so that the axioms stay small
	s := e.fresh("apps", "Slice")
	e.assert(eq(s, s0))
	a1 := e.val(c.Args[1])
	srcIsStr := isString(c.Args[1].Type())
	k := e.fresh("appk", "Int")
	src := a1
	if srcIsStr {
		e.assert(fmt.Sprintf("(= %s (strlen %s))", k, a1))
	} else {
		src = e.fresh("appsrc", "Slice")
		e.assert(eq(src, a1))
		e.assert(fmt.Sprintf("(= %s (slen %s))", k, src))
	}
	r := e.fresh("app", "Slice")
	narr := e.newObjRef()
	ncap := e.fresh("appcap", "Int")
	n := e.fresh("appn", "Int")
	e.assert(fmt.Sprintf("(= %s (+ (slen %s) %s))", n, s, k))
	fits := e.fresh("appfits", "Bool")
	e.assert(fmt.Sprintf("(= %s (<= %s (scap %s)))", fits, n, s))
	e.assert(fmt.Sprintf("(=> %s (= %s (mkslice (sarr %s) (soff %s) %s (scap %s))))", fits, r, s, s, n, s))
	e.assert(fmt.Sprintf("(=> (not %s) (= %s (mkslice %s 0 %s %s)))", fits, r, narr, n, ncap))
	e.assert(fmt.Sprintf("(>= %s %s)", ncap, n))
	if isHeapScalar(es) {
		old := e.heap(st, es)
		nw := e.fresh("Mem_"+sortKey(es)+"_app", "(Array Ref "+es+")")
		srcAt := func(i string) string {
			if srcIsStr {
				return fmt.Sprintf("(strat %s %s)", src, i)
			}
			// the source may be a slice of a protected local array (varargs): read the right memory
			return fmt.Sprintf("(select %s (elem (sarr %s) (+ (soff %s) %s)))", e.heapAt(st, es, sliceArr(a1)), src, src, i)
		}
		// in place: only the k cells after the old length change
		e.elemUpdate(fits, nw, old,
			fmt.Sprintf("(and (= qb (sarr %s)) (<= (+ (soff %s) (slen %s)) qi) (< qi (+ (soff %s) %s)))", s, s, s, s, n),
			srcAt(fmt.Sprintf("(- qi (soff %s) (slen %s))", s, s)))
		// reallocated: the new array holds the old elements followed by the appended ones
		e.elemUpdate(not(fits), nw, old,
			fmt.Sprintf("(and (= qb %s) (<= 0 qi) (< qi %s))", narr, n),
			fmt.Sprintf("(ite (< qi (slen %s)) (select %s (elem (sarr %s) (+ (soff %s) qi))) %s)", s, old, s, s, srcAt(fmt.Sprintf("(- qi (slen %s))", s))))
		e.setHeap(st, es, old, nw, heapUpd{elems: true})
		// ground instances for the first and last appended cell (consequences of the two axioms
		// above; they give quantified specifications a term to trigger on)
		e.assert(fmt.Sprintf("(=> (> %s 0) (= (select %s (elem (sarr %s) (+ (soff %s) (slen %s)))) %s))", k, nw, r, r, s, srcAt("0")))
		e.assert(fmt.Sprintf("(=> (> %s 1) (= (select %s (elem (sarr %s) (+ (soff %s) (- %s 1)))) %s))", k, nw, r, r, n, srcAt(fmt.Sprintf("(- %s 1)", k))))
	} else if paths, ok := leafPaths(et); ok && !srcIsStr {
		// aggregate elements made of scalar leaves: the same two axioms per leaf cell
		// (fld ... (elem arr i) ... id), grouped by the heap (sort) the leaf lives in
		bySort := map[string][]leafPath{}
		var sorts []string
		// leaves no clause of this function's contract names are not tracked cell by cell (their cells in
		// element positions are forgotten instead): every tracked leaf costs two quantified axioms
		forget := newModSet()
		var tracked []leafPath
		for _, lp := range paths {
			last := lp.ids[len(lp.ids)-1]
			if v := fieldByID[last]; v != nil && !e.contractMentionsField(v.Name()) {
				forget.fields[last] = true
				continue
			}
			tracked = append(tracked, lp)
		}
		paths = tracked
		if len(forget.fields) > 0 {
			e.havoc(st, forget, "appf")
			e.note("append of aggregate elements: only the leaves named in the contract are tracked")
		}
		for _, lp := range paths {
			if _, seen := bySort[lp.sort]; !seen {
				sorts = append(sorts, lp.sort)
			}
			bySort[lp.sort] = append(bySort[lp.sort], lp)
		}
		for _, ls := range sorts {
			old := e.heap(st, ls)
			nw := e.fresh("Mem_"+sortKey(ls)+"_app", "(Array Ref "+ls+")")
			srcMem := e.heapAt(st, ls, sliceArr(a1))
			fields := map[int]bool{}
			var shapes []string
			for _, lp := range bySort[ls] {
				fields[lp.ids[len(lp.ids)-1]] = true
				shapes = append(shapes, lp.shape("r"))
				cell := func(arr, idx string) string { return lp.at(fmt.Sprintf("(elem %s %s)", arr, idx)) }
				srcAt := func(i string) string {
					return fmt.Sprintf("(select %s %s)", srcMem, cell(fmt.Sprintf("(sarr %s)", src), fmt.Sprintf("(+ (soff %s) %s)", src, i)))
				}
				q := cell("qb", "qi")
				inPlace := fmt.Sprintf("(and (= qb (sarr %s)) (<= (+ (soff %s) (slen %s)) qi) (< qi (+ (soff %s) %s)))", s, s, s, s, n)
				e.assert(implies(fits, fmt.Sprintf("(forall ((qb Ref) (qi Int)) (! (= (select %s %s) (ite %s %s (select %s %s))) :pattern ((select %s %s))))",
					nw, q, inPlace, srcAt(fmt.Sprintf("(- qi (soff %s) (slen %s))", s, s)), old, q, nw, q)))
				moved := fmt.Sprintf("(and (= qb %s) (<= 0 qi) (< qi %s))", narr, n)
				movedVal := fmt.Sprintf("(ite (< qi (slen %s)) (select %s %s) %s)", s, old, cell(fmt.Sprintf("(sarr %s)", s), fmt.Sprintf("(+ (soff %s) qi)", s)), srcAt(fmt.Sprintf("(- qi (slen %s))", s)))
				e.assert(implies(not(fits), fmt.Sprintf("(forall ((qb Ref) (qi Int)) (! (= (select %s %s) (ite %s %s (select %s %s))) :pattern ((select %s %s))))",
					nw, q, moved, movedVal, old, q, nw, q)))
				// ground instances: first and last appended element
				e.assert(fmt.Sprintf("(=> (> %s 0) (= (select %s %s) %s))", k, nw, cell(fmt.Sprintf("(sarr %s)", r), fmt.Sprintf("(+ (soff %s) (slen %s))", r, s)), srcAt("0")))
				e.assert(fmt.Sprintf("(=> (> %s 1) (= (select %s %s) %s))", k, nw, cell(fmt.Sprintf("(sarr %s)", r), fmt.Sprintf("(+ (soff %s) (- %s 1))", r, n)), srcAt(fmt.Sprintf("(- %s 1)", k))))
			}
			shape := shapes[0]
			if len(shapes) > 1 {
				shape = "(or " + strings.Join(shapes, " ") + ")"
			}
			e.assert(fmt.Sprintf("(forall ((r Ref)) (! (=> (not %s) (= (select %s r) (select %s r))) :pattern ((select %s r))))", shape, nw, old, nw))
			e.setHeap(st, ls, old, nw, heapUpd{fields: fields})
		}
	} else {
		ms := newModSet()
		typeLeaves(et, ms.fields, ms.elems)
		e.havoc(st, ms, "app")
		e.note("append of aggregate elements: element contents not tracked")
	}
	return r
}

// leafPath: a scalar leaf of an aggregate element type, as the field ids from the element inwards.
type leafPath struct {
	ids  []int
	sort string
}

// at: the address of the leaf inside the element at address elem.
func (lp leafPath) at(elem string) string {
	t := elem
	for _, id := range lp.ids {
		t = fmt.Sprintf("(fld %s %d)", t, id)
	}
	return t
}

// shape: r is the address of this leaf in some slice/array element.
func (lp leafPath) shape(r string) string {
	var cs []string
	t := r
	for i := len(lp.ids) - 1; i >= 0; i-- {
		cs = append(cs, fmt.Sprintf("((_ is fld) %s) (= (fidx %s) %d)", t, t, lp.ids[i]))
		t = fmt.Sprintf("(fbase %s)", t)
	}
	cs = append(cs, fmt.Sprintf("((_ is elem) %s)", t))
	return "(and " + strings.Join(cs, " ") + ")"
}

// leafPaths: the scalar leaves of a struct type (nested structs flattened); false when a leaf is not a heap
// scalar (arrays inside the element) - the caller then falls back to forgetting the contents.
func leafPaths(t types.Type) ([]leafPath, bool) {
	st, ok := t.Underlying().(*types.Struct)
	if !ok {
		return nil, false
	}
	var out []leafPath
	for i := 0; i < st.NumFields(); i++ {
		f := st.Field(i)
		id := fieldID(f)
		switch f.Type().Underlying().(type) {
		case *types.Struct:
			sub, ok := leafPaths(f.Type())
			if !ok {
				return nil, false
			}
			for _, sp := range sub {
				out = append(out, leafPath{ids: append([]int{id}, sp.ids...), sort: sp.sort})
			}
		case *types.Array:
			return nil, false
		default:
			so := sortOf(f.Type())
			if !isHeapScalar(so) {
				return nil, false
			}
			out = append(out, leafPath{ids: []int{id}, sort: so})
		}
	}
	return out, len(out) > 0
}

func (e *enc) copyBuiltin(st *State, c *ssa.CallCommon) string {
	dst := e.val(c.Args[0])
	src := e.val(c.Args[1])
	sl := c.Args[0].Type().Underlying().(*types.Slice)
	es := sortOf(sl.Elem())
	srcLen := fmt.Sprintf("(slen %s)", src)
	srcIsStr := isString(c.Args[1].Type())
	if srcIsStr {
		srcLen = fmt.Sprintf("(strlen %s)", src)
	}
	n := e.fresh("copied", "Int")
	e.assert(fmt.Sprintf("(= %s (imin (slen %s) %s))", n, dst, srcLen))
	if isHeapScalar(es) {
		old := e.heap(st, es)
		nw := e.fresh("Mem_"+sortKey(es)+"_cp", "(Array Ref "+es+")")
		srcVal := fmt.Sprintf("(select %s (elem (sarr %s) (+ (soff %s) (- qi (soff %s)))))", e.heapAt(st, es, sliceArr(src)), src, src, dst)
		if srcIsStr {
			srcVal = fmt.Sprintf("(strat %s (- qi (soff %s)))", src, dst)
		}
		e.elemUpdate("true", nw, old, fmt.Sprintf("(and (= qb (sarr %s)) (<= (soff %s) qi) (< qi (+ (soff %s) %s)))", dst, dst, dst, n), srcVal)
		e.setHeap(st, es, old, nw, heapUpd{elems: true})
	} else {
		ms := newModSet()
		typeLeaves(sl.Elem(), ms.fields, ms.elems)
		e.havoc(st, ms, "cp")
	}
	return n
}

// siteOrdinal numbers the call sites of one callee name in SOURCE order (stable under
// reordering of basic blocks by the SSA builder).
func (e *enc) siteOrdinal(ins ssa.Instruction, short string) int {
	if e.siteOrd == nil {
		e.siteOrd = map[ssa.Instruction]int{}
		by := map[string][]ssa.Instruction{}
		for _, b := range e.fn.Blocks {
			for _, in := range b.Instrs {
				var cc *ssa.CallCommon
				switch x := in.(type) {
				case *ssa.Call:
					cc = &x.Call
				case *ssa.Defer:
					cc = &x.Call
				case *ssa.Go:
					cc = &x.Call
				}
				if cc == nil {
					continue
				}
				if bi, isB := stripVal(cc.Value).(*ssa.Builtin); isB && bi.Name() != "append" && bi.Name() != "copy" && bi.Name() != "delete" {
					continue
				}
				n := e.calleeShort(cc)
				by[n] = append(by[n], in)
			}
		}
		for _, list := range by {
			sort.SliceStable(list, func(i, j int) bool {
				pi, pj := list[i].Pos(), list[j].Pos()
				if pi != pj {
					return pi < pj
				}
				if list[i].Block().Index != list[j].Block().Index {
					return list[i].Block().Index < list[j].Block().Index
				}
				return false
			})
			for i, in := range list {
				e.siteOrd[in] = i + 1
			}
		}
	}
	if n, ok := e.siteOrd[ins]; ok {
		return n
	}
	e.callOcc[short]++
	return 1000 + e.callOcc[short]
}

// varargsOperands recovers the operands stored into the varargs array of a variadic call
// (a := new [n]T (varargs); a[i] = x_i; f(a[:])).
func varargsOperands(arg ssa.Value) ([]ssa.Value, bool) {
	sl, ok := stripVal(arg).(*ssa.Slice)
	if !ok {
		return nil, false
	}
	al, ok := sl.X.(*ssa.Alloc)
	if !ok {
		return nil, false
	}
	at, ok := al.Type().Underlying().(*types.Pointer).Elem().Underlying().(*types.Array)
	if !ok {
		return nil, false
	}
	ops := make([]ssa.Value, at.Len())
	for _, r := range *al.Referrers() {
		ia, ok := r.(*ssa.IndexAddr)
		if !ok {
			continue
		}
		k, isC := constInt(ia.Index)
		if !isC || !k.IsInt64() || k.Int64() < 0 || k.Int64() >= at.Len() {
			return nil, false
		}
		for _, rr := range *ia.Referrers() {
			if s, ok := rr.(*ssa.Store); ok && s.Addr == ia {
				if ops[k.Int64()] != nil {
					return nil, false
				}
				ops[k.Int64()] = s.Val
			}
		}
	}
	for _, o := range ops {
		if o == nil {
			return nil, false
		}
	}
	return ops, true
}

// sprintTerm models fmt.Sprint over string and integer operands as concatenation (integers through
// the uninterpreted decimal rendering dec(n)). fmt.Sprint inserts a space only between two
// adjacent non-string operands, a shape that is not modelled.
func (e *enc) sprintTerm(c *ssa.CallCommon) (string, bool) {
	if len(c.Args) != 1 {
		return "", false
	}
	ops, ok := varargsOperands(c.Args[0])
	if !ok || len(ops) == 0 {
		return "", false
	}
	var parts []string
	prevStr := true
	for _, o := range ops {
		mi, ok := stripVal(o).(*ssa.MakeInterface)
		if !ok {
			return "", false
		}
		t := mi.X.Type()
		switch {
		case isString(t):
			parts = append(parts, e.val(mi.X))
			prevStr = true
		case isInteger(t):
			if !prevStr {
				return "", false
			}
			e.declareFun("dec", "(Int) Str")
			parts = append(parts, fmt.Sprintf("(dec %s)", e.val(mi.X)))
			prevStr = false
		default:
			return "", false
		}
	}
	r := parts[0]
	for _, p := range parts[1:] {
		r = fmt.Sprintf("(strcat %s %s)", r, p)
	}
	return r, true
}

// sendOrdinal numbers the sends on one channel expression in source order.
func (e *enc) sendOrdinal(pos token.Pos, name string) int {
	var list []token.Pos
	for _, b := range e.fn.Blocks {
		for _, in := range b.Instrs {
			switch s := in.(type) {
			case *ssa.Send:
				if e.valText(s.Chan) == name {
					list = append(list, s.Pos())
				}
			case *ssa.Select:
				for _, stt := range s.States {
					if stt.Dir == types.SendOnly && e.valText(stt.Chan) == name {
						list = append(list, stt.Pos)
					}
				}
			}
		}
	}
	sort.SliceStable(list, func(i, j int) bool { return list[i] < list[j] })
	for i, p := range list {
		if p == pos {
			return i + 1
		}
	}
	return 0
}

// siteCounts counts, per callee short name, the call sites of the function (calls, defers, go
// statements; builtins append/copy/delete), and per channel text the send / receive sites
// ("send:<chan>", "recv:<chan>").
func (e *enc) siteCounts() map[string]int {
	out := map[string]int{}
	for _, b := range e.fn.Blocks {
		for _, in := range b.Instrs {
			var cc *ssa.CallCommon
			switch x := in.(type) {
			case *ssa.Call:
				cc = &x.Call
			case *ssa.Defer:
				cc = &x.Call
			case *ssa.Go:
				cc = &x.Call
			case *ssa.Send:
				out["send:"+e.valText(x.Chan)]++
			case *ssa.Store:
				// direct assignments to a field (x.f = v), by field name: "only store:f n"
				if fa, ok := stripVal(x.Addr).(*ssa.FieldAddr); ok {
					if stt := structOf(fa.X.Type()); stt != nil {
						out["store:"+stt.Field(fa.Field).Name()]++
					}
				}
			case *ssa.UnOp:
				if x.Op == token.ARROW {
					out["recv:"+e.valText(x.X)]++
				}
			case *ssa.Select:
				for _, stt := range x.States {
					if stt.Dir == types.SendOnly {
						out["send:"+e.valText(stt.Chan)]++
					} else {
						out["recv:"+e.valText(stt.Chan)]++
					}
				}
			}
			if cc == nil {
				continue
			}
			if bi, isB := stripVal(cc.Value).(*ssa.Builtin); isB && bi.Name() != "append" && bi.Name() != "copy" && bi.Name() != "delete" {
				continue
			}
			out[e.calleeShort(cc)]++
		}
	}
	return out
}

// sendClauses applies "send <chan>#k assert|bind" clauses to a value offered on a channel.
func (e *enc) sendClauses(st *State, ch ssa.Value, val ssa.Value, pos token.Pos) {
	if e.c == nil {
		return
	}
	sent := e.val(val)
	name := e.valText(ch)
	site := fmt.Sprintf("send:%s#%d", name, e.sendOrdinal(pos, name))
	for _, cc := range e.c.calls[site] {
		env := e.envFor(st, e.entry)
		env.bound["$val"] = SVal{t: sent, typ: val.Type(), sort: sortOf(val.Type())}
		switch cc.kind {
		case "assert":
			key := cc.label
			if key == "" {
				key = "assert"
			}
			g := e.evalBool(cc.expr, env, "send assertion "+site)
			e.oblige("callsite", fmt.Sprintf("%s:%s", site, key), g, pos, cc.text)
		case "bind":
			v := e.evalSpec(cc.expr, env)
			gc := e.ghostCellFor(cc.name, v)
			st.cells[gc.cell] = v.t
			st.cells[gc.cell+"_set"] = "true"
		}
	}
}

// tryEvalBool evaluates a clause; ok=false when it refers to identifiers unknown in this environment.
func (e *enc) tryEvalBool(x SExpr, env *Env, what string) (res string, ok bool) {
	defer func() {
		if r := recover(); r != nil {
			if s, isS := r.(string); isS && strings.Contains(s, "unknown identifier") {
				res, ok = "", false
				return
			}
			panic(r)
		}
	}()
	return e.evalBool(x, env, what), true
}

// elemUpdate axiomatises nw as old updated on element cells: for element addresses (elem qb qi)
// satisfying cond, the new value is val (both over qb, qi); every other cell is unchanged. The
// triggers mention (elem qb qi) explicitly, so no index terms are invented for non-element refs.
func (e *enc) elemUpdate(guard, nw, old, cond, val string) {
	a1 := fmt.Sprintf("(forall ((qb Ref) (qi Int)) (! (= (select %s (elem qb qi)) (ite %s %s (select %s (elem qb qi)))) :pattern ((select %s (elem qb qi)))))", nw, cond, val, old, nw)
	a2 := fmt.Sprintf("(forall ((r Ref)) (! (=> (not ((_ is elem) r)) (= (select %s r) (select %s r))) :pattern ((select %s r))))", nw, old, nw)
	e.assert(implies(guard, a1))
	e.assert(implies(guard, a2))
}

// sliceArr extracts the backing-array term of a syntactic (mkslice arr off len cap) term.
func sliceArr(t string) string {
	if !strings.HasPrefix(t, "(mkslice ") {
		return ""
	}
	rest := t[len("(mkslice "):]
	if !strings.HasPrefix(rest, "(") {
		if i := strings.IndexByte(rest, ' '); i > 0 {
			return rest[:i]
		}
		return ""
	}
	d := 0
	for i, c := range rest {
		switch c {
		case '(':
			d++
		case ')':
			d--
			if d == 0 {
				return rest[:i+1]
			}
		}
	}
	return ""
}

// havocStores: abstract store theory hook (stage 2).
func (e *enc) havocStores(st *State, tag string) {
	for _, k := range []string{"exists", "updated", "content", "size"} {
		c, _ := e.storeCell(k)
		st.cells[c] = e.fresh(c+"_"+tag, e.cellSortOf[c])
	}
}

// storeCell: ghost state of abstract object stores, indexed by store value and key.
func (e *enc) storeCell(kind string) (cell, valSort string) {
	valSort = "Int"
	if kind == "exists" {
		valSort = "Bool"
	}
	cell = "Store_" + kind
	e.cellSortOf[cell] = fmt.Sprintf("(Array Iface (Array Str %s))", valSort)
	return
}

var _ = sort.Strings

// errorfWrapped: for fmt.Errorf(<constant format>, args...) whose format has a %w verb, the operand it wraps.
func errorfWrapped(c *ssa.CallCommon) (ssa.Value, bool) {
	if len(c.Args) != 2 {
		return nil, false
	}
	k, ok := stripVal(c.Args[0]).(*ssa.Const)
	if !ok || k.Value == nil || k.Value.Kind() != constant.String {
		return nil, false
	}
	format := constant.StringVal(k.Value)
	ops, ok := varargsOperands(c.Args[1])
	if !ok {
		return nil, false
	}
	argi := 0
	for i := 0; i < len(format); i++ {
		if format[i] != '%' {
			continue
		}
		i++
		// flags, width, precision
		for i < len(format) && strings.ContainsRune("+-# 0123456789.", rune(format[i])) {
			i++
		}
		if i >= len(format) {
			break
		}
		switch format[i] {
		case '%':
			continue
		case '*', '[':
			return nil, false // explicit argument indexes / star widths: not modelled
		case 'w':
			if argi >= len(ops) || ops[argi] == nil {
				return nil, false
			}
			o := stripVal(ops[argi])
			if mi, isMI := o.(*ssa.MakeInterface); isMI {
				if _, isIface := mi.X.Type().Underlying().(*types.Interface); isIface {
					o = mi.X
				}
			}
			if _, isIface := o.Type().Underlying().(*types.Interface); !isIface {
				return nil, false
			}
			return o, true
		default:
			argi++
		}
	}
	return nil, false
}

// havocCells: the callee writes exactly the cells some of its pointer arguments point to (mods.go,
// paramDeref): those cells get a fresh value, everything else of that heap is kept.
func (e *enc) havocCells(st *State, ms *ModSet, tag string) {
	type cw struct{ addr, sort string }
	var cells []cw
	for _, w := range ms.cellWrites {
		cells = append(cells, cw{e.val(w.addr), w.sort})
	}
	for _, k := range sortedInts2(ms.paramDeref) {
		// the caller's own pointer parameter handed on
		if k < len(e.fn.Params) {
			for _, so := range sortedKeys(ms.paramDeref[k]) {
				cells = append(cells, cw{e.val(e.fn.Params[k]), so})
			}
		}
	}
	for _, c := range cells {
		if isLocalTerm(c.addr) {
			mc := memCell(c.sort, c.addr)
			old := e.get(st, mc, "(Array Ref "+c.sort+")")
			v := e.fresh("cellw_"+tag, c.sort)
			st.cells[mc] = fmt.Sprintf("(store %s %s %s)", old, c.addr, v)
			continue
		}
		old := e.heap(st, c.sort)
		v := e.fresh("cellw_"+tag, c.sort)
		e.setHeap(st, c.sort, old, fmt.Sprintf("(store %s %s %s)", old, c.addr, v), heapUpd{whole: true})
	}
}

// contractMentionsField: some clause of the current function's contract (or a predicate it may use) names
// a field .name.
func (e *enc) contractMentionsField(name string) bool {
	if e.c == nil {
		return false
	}
	if e.mentioned == nil {
		e.mentioned = map[string]bool{}
		add := func(t string) {
			for _, m := range reDotName.FindAllStringSubmatch(t, -1) {
				e.mentioned[m[1]] = true
			}
		}
		for _, cs := range [][]*Clause{e.c.requires, e.c.ensures, e.c.assumes, e.c.postAssumed} {
			for _, c := range cs {
				add(c.text)
			}
		}
		for _, l := range e.c.loops {
			for _, c := range l.invariants {
				add(c.text)
			}
			for _, c := range l.steps {
				add(c.text)
			}
			if l.decreases != nil {
				add(l.decreases.text)
			}
		}
		for _, ccs := range e.c.calls {
			for _, cc := range ccs {
				add(cc.text)
			}
		}
		for _, g := range e.c.ghosts {
			add(g.text)
		}
		for _, pd := range e.p.preds {
			add(pd.text)
		}
	}
	return e.mentioned[name]
}

var reDotName = regexp.MustCompile(`\.([A-Za-z_][A-Za-z0-9_]*)`)
