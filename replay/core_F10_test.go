package core

import (
	"context"
	"fmt"
	"strings"
	"testing"

	context2 "github.com/oneconcern/datamon/pkg/context"
	"github.com/oneconcern/datamon/pkg/model"
)

// F10: RenameRepo copies every file list of every bundle to the new name. The read of a source file list
// tests the wrong error variable (`if e != nil { return ee }`), so a failed read is not reported: the copy
// goes on with a nil reader. Afterwards the original repository is deleted.
func TestReplayF10(t *testing.T) {
	meta, vmeta := newRPStore("meta"), newRPStore("vmeta")
	stores := context2.NewStores(newRPStore("wal"), newRPStore("rl"), newRPStore("blob"), meta, vmeta)
	ctx := context.Background()
	put := func(k, v string) { _ = meta.Put(ctx, k, strings.NewReader(v), true) }
	put(model.GetArchivePathToRepoDescriptor("r"), "name: r\ndescription: d\ncontributor:\n  name: n\n  email: e@x\n")
	a := "1aaaaaaaaaaaaaaaaaaaaaaaaaa"
	put(model.GetArchivePathToBundle("r", a), "id: "+a+"\ncount: 1\nleafSize: 2097152\ndeduplication: blake\nmessage: m\ncontributors:\n- name: n\n  email: e@x\n")
	fl := model.GetArchivePathToBundleFileList("r", a, 0)
	put(fl, "- name: f\n  hash: h\n")
	meta.FailGet = map[string]int{fl: 1} // one transient failure reading the file list
	var err error
	panicked := ""
	func() {
		defer func() {
			if r := recover(); r != nil {
				panicked = fmt.Sprint(r)
			}
		}()
		err = RenameRepo("r", "r2", stores)
	}()
	copied, _ := meta.Has(ctx, model.GetArchivePathToBundleFileList("r2", a, 0))
	oldStill, _ := meta.Has(ctx, fl)
	switch {
	case panicked != "":
		t.Logf("REPLAY-CONFIRMED F10 RenameRepo panics after a failed file-list read: %s (file list copied: %v, original still there: %v)", panicked, copied, oldStill)
	case err == nil && !copied:
		t.Logf("REPLAY-CONFIRMED F10 RenameRepo reports success although the file list was not copied (original still there: %v)", oldStill)
	default:
		t.Logf("REPLAY-NOT-REPRODUCED F10 err=%v copied=%v original=%v", err, copied, oldStill)
	}
}
