package core

import (
	"context"
	"io/ioutil"
	"sort"
	"strings"
	"testing"
	"time"

	"github.com/oneconcern/datamon/pkg/model"
	"go.uber.org/zap"
)

type rpKV2 struct{ m map[string][]byte }

type rpKVIter struct {
	kv   *rpKV2
	keys []string
	i    int
}

func (k *rpKV2) Drop() error                      { k.m = map[string][]byte{}; return nil }
func (k *rpKV2) Size() uint64                     { return uint64(len(k.m)) }
func (k *rpKV2) Close() error                     { return nil }
func (k *rpKV2) Exists(b []byte) (bool, error)    { _, ok := k.m[string(b)]; return ok, nil }
func (k *rpKV2) Get(b []byte) ([]byte, error)     { return k.m[string(b)], nil }
func (k *rpKV2) Set(b, v []byte) error            { k.m[string(b)] = append([]byte(nil), v...); return nil }
func (k *rpKV2) SetIfNotExists(b, v []byte) error { if _, ok := k.m[string(b)]; !ok { k.m[string(b)] = v }; return nil }
func (k *rpKV2) Compact() error                   { return nil }
func (k *rpKV2) AllKeys() kvIterator {
	it := &rpKVIter{kv: k, i: -1}
	for key := range k.m {
		it.keys = append(it.keys, key)
	}
	sort.Strings(it.keys)
	return it
}
func (it *rpKVIter) Next() bool { it.i++; return it.i < len(it.keys) }
func (it *rpKVIter) Item() ([]byte, []byte, error) {
	return []byte(it.keys[it.i]), it.kv.m[it.keys[it.i]], nil
}
func (it *rpKVIter) Close() error { return nil }

// K12: dbReader.Read marks a key as uploaded when it is streamed, before the chunk write is known to
// have succeeded. When the Put of an index chunk fails transiently after consuming its reader, the
// retry skips every key already streamed: chunkUploader reports success, and those keys are in no chunk.
func TestReplayK12(t *testing.T) {
	meta := newRPStore("meta")
	ctx := context.Background()
	db := &rpKV2{m: map[string][]byte{"key-1": {}, "key-2": {}, "key-3": {}}}
	file := model.ReverseIndexFile(1)
	meta.FailPut[file] = 1
	var uploaded uint64
	err := chunkUploader(ctx, 1, 100, meta, time.Now().UTC(), &uploaded, db, zap.NewNop(), defaultPurgeOptions(nil))()
	var content string
	if r, e := meta.Get(ctx, file); e == nil {
		b, _ := ioutil.ReadAll(r)
		content = string(b)
	}
	missing := 0
	for k := range db.m {
		if !strings.Contains(content, k+"\n") {
			missing++
		}
	}
	if err == nil && missing > 0 {
		t.Logf("REPLAY-CONFIRMED K12 chunk upload reported success after one transient Put failure, but %d of 3 keys are in no index chunk (chunk=%q, counted uploaded=%d)", missing, content, uploaded)
	} else {
		t.Logf("REPLAY-NOT-REPRODUCED K12 err=%v missing=%d chunk=%q", err, missing, content)
	}
}
