#!/bin/sh
# usage: run.sh <pkgdir relative to /repo> <replay test file> <TestName>
# Injects the replay test (and the in-memory store) into the package with go test -overlay.
# Nothing is written to /repo. Prints the test's REPLAY-* lines.
set -e
export GOFLAGS=-mod=mod GOPROXY=off GOSUMDB=off GOTOOLCHAIN=local
pkg="$1"; test="$2"; name="$3"
tmp=$(mktemp -d); trap 'rm -rf "$tmp"' EXIT
pkgname=$(sed -n 's/^package \([A-Za-z0-9_]*\).*/\1/p' "$test" | head -1)
sed "s/PKGNAME/$pkgname/" /verif/replay/memstore.go.tmpl > "$tmp/zz_rpstore_test.go"
cp "$test" "$tmp/zz_replay_test.go"
printf 'package %s\n' "$pkgname" > "$tmp/stub.go"
{
  printf '{"Replace":{'
  printf '"/repo/%s/zz_rpstore_test.go":"%s/zz_rpstore_test.go","/repo/%s/zz_replay_test.go":"%s/zz_replay_test.go"' "$pkg" "$tmp" "$pkg" "$tmp"
  if [ "$pkg" = "pkg/core" ]; then
    # pkg/core's own tests import a package that is not in the tree: replace each by an empty stub
    for f in /repo/pkg/core/*_test.go; do printf ',"%s":"%s/stub.go"' "$f" "$tmp"; done
  fi
  printf '}}'
} > "$tmp/ov.json"
cd /repo && go test -overlay "$tmp/ov.json" -vet=off -count=1 -timeout 120s -run "^$name\$" -v "./$pkg" 2>&1 | grep -E "REPLAY-|^(ok|FAIL|panic|---)" || true
