package wal

import (
	"context"
	"fmt"
	"strings"
	"testing"
	"time"

	"github.com/oneconcern/datamon/pkg/model"
	"go.uber.org/zap"
)

type rpListRes struct {
	entries []model.Entry
	err     error
	hang    bool
	panicv  interface{}
}

func rpList(w *WAL, from string, max int) rpListRes {
	ch := make(chan rpListRes, 1)
	go func() {
		defer func() {
			if r := recover(); r != nil {
				ch <- rpListRes{panicv: r}
			}
		}()
		es, _, err := w.ListEntries(context.Background(), from, max)
		ch <- rpListRes{entries: es, err: err}
	}()
	select {
	case r := <-ch:
		return r
	case <-time.After(3 * time.Second):
		return rpListRes{hang: true}
	}
}

// K14 (WAL read path): what Add appends is not what ListEntries returns.
func TestReplayK14(t *testing.T) {
	for _, tc := range []struct{ name, payload string }{
		{"plain", "hello"},
		{"yaml-looking", "token: forged\npayload: other"},
		{"large", strings.Repeat("0123456789abcdef", 200)}, // 3200 bytes > one 1 KiB read
	} {
		w := New(newRPStore("mutable"), newRPStore("wal"), Logger(zap.NewNop()))
		tok, err := w.Add(context.Background(), tc.payload)
		if err != nil {
			t.Logf("REPLAY-NOT-REPRODUCED K14 %s: Add failed: %v", tc.name, err)
			continue
		}
		r := rpList(w, tok, 10)
		ok := !r.hang && r.panicv == nil && r.err == nil && len(r.entries) == 1 && r.entries[0].Token == tok && r.entries[0].Payload == tc.payload
		if ok {
			t.Logf("REPLAY-NOT-REPRODUCED K14 %s: entry returned unchanged", tc.name)
			continue
		}
		got := "-"
		if len(r.entries) > 0 {
			got = fmt.Sprintf("token=%q payload(len %d)=%.30q", r.entries[0].Token, len(r.entries[0].Payload), r.entries[0].Payload)
		}
		t.Logf("REPLAY-CONFIRMED K14 %s: Add(token %s, %d bytes) then ListEntries: hang=%v panic=%v err=%v entries=%d %s", tc.name, tok, len(tc.payload), r.hang, r.panicv, r.err, len(r.entries), got)
	}
}
