package core

import (
	"context"
	"strings"
	"testing"
	"time"

	"go.uber.org/zap"
)

type rpKV struct{ m map[string][]byte }

func (k *rpKV) Drop() error                          { k.m = map[string][]byte{}; return nil }
func (k *rpKV) Size() uint64                         { return uint64(len(k.m)) }
func (k *rpKV) Close() error                         { return nil }
func (k *rpKV) Exists(b []byte) (bool, error)        { _, ok := k.m[string(b)]; return ok, nil }
func (k *rpKV) Get(b []byte) ([]byte, error)         { return k.m[string(b)], nil }
func (k *rpKV) Set(b, v []byte) error                { k.m[string(b)] = append([]byte(nil), v...); return nil }
func (k *rpKV) SetIfNotExists(b, v []byte) error     { if _, ok := k.m[string(b)]; !ok { k.m[string(b)] = v }; return nil }
func (k *rpKV) AllKeys() kvIterator                  { return nil }
func (k *rpKV) Compact() error                       { return nil }

// F13: a transient failure of GetAttr on a blob written AFTER the index time is swallowed (the retry
// closure returns the outer, nil, err), the attributes stay zero, and the blob is deleted although it
// is more recent than the index; checkAndDeleteKey reports success.
func TestReplayF13(t *testing.T) {
	blob := newRPStore("blob")
	ctx := context.Background()
	_ = blob.Put(ctx, "fresh-blob", strings.NewReader("uploaded after the index was built"), true)
	blob.FailGet["fresh-blob"] = 1
	indexTime := time.Now().Add(-time.Hour)
	var a, b, c, d uint64
	err := checkAndDeleteKey(ctx, &rpKV{m: map[string][]byte{}}, indexTime, "fresh-blob", blob, zap.NewNop(), false, &a, &b, &c, &d)
	still, _ := blob.Has(ctx, "fresh-blob")
	if err == nil && !still {
		t.Logf("REPLAY-CONFIRMED F13 blob newer than the index deleted after one transient GetAttr failure (moreRecent=%d deleted=%d)", b, c)
	} else {
		t.Logf("REPLAY-NOT-REPRODUCED F13 err=%v blob kept=%v", err, still)
	}
}
