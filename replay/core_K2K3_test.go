package core

import (
	"context"
	"strings"
	"testing"

	context2 "github.com/oneconcern/datamon/pkg/context"
	"github.com/oneconcern/datamon/pkg/model"
)

// K2/K3: leftovers of an interrupted upload (file list written, descriptor not) are treated as bundles.
func TestReplayK2K3(t *testing.T) {
	meta := newRPStore("meta")
	stores := context2.NewStores(newRPStore("wal"), newRPStore("rl"), newRPStore("blob"), meta, newRPStore("vmeta"))
	ctx := context.Background()
	put := func(k, v string) { _ = meta.Put(ctx, k, strings.NewReader(v), true) }
	put(model.GetArchivePathToRepoDescriptor("r"), "name: r\n")
	a, b := "1aaaaaaaaaaaaaaaaaaaaaaaaaa", "2bbbbbbbbbbbbbbbbbbbbbbbbbb"
	put(model.GetArchivePathToBundle("r", a), "id: "+a+"\n")
	put(model.GetArchivePathToBundleFileList("r", a, 0), "bundleentries: []\n")
	put(model.GetArchivePathToBundleFileList("r", b, 0), "bundleentries: []\n") // leftover: no bundle.yaml
	latest, err := GetLatestBundle("r", stores)
	has, _ := meta.Has(ctx, model.GetArchivePathToBundle("r", latest))
	if err == nil && !has {
		t.Logf("REPLAY-CONFIRMED K3 GetLatestBundle returned %q whose descriptor does not exist", latest)
	} else {
		t.Logf("REPLAY-NOT-REPRODUCED K3 latest=%q err=%v", latest, err)
	}
	bs, err := ListBundles("r", stores, WithMinimalBundle(true))
	leftover := false
	for _, d := range bs {
		if d.ID == b {
			leftover = true
		}
	}
	if err == nil && leftover {
		t.Logf("REPLAY-CONFIRMED K2 ListBundles(WithMinimalBundle) lists the leftover %q as a bundle", b)
	} else {
		t.Logf("REPLAY-NOT-REPRODUCED K2 bundles=%v err=%v", bs, err)
	}
}
