package core

import (
	"sort"
	"strings"
	"sync"
	"testing"
	"time"

	context2 "github.com/oneconcern/datamon/pkg/context"
	"github.com/oneconcern/datamon/pkg/model"
)

type rpNoPather struct{}

func (rpNoPather) Next() (string, indexIterator) { return "", nil }

// rpMerge drives the real (*Diamond).mergeSplits with the given arrival order of split file lists.
func rpMerge(order []bundleEntriesRes) []string {
	stores := context2.NewStores(newRPStore("wal"), newRPStore("rl"), newRPStore("blob"), newRPStore("meta"), newRPStore("vmeta"))
	d := NewDiamond("r", stores, DiamondDescriptor(model.NewDiamondDescriptor(model.DiamondID("d"))))
	d.splitIndexer = newFileIndex(stores, fileIndexPather(rpNoPather{}))
	for _, r := range order {
		d.splitIndexer.output <- r // buffered: what the unordered download would have delivered, in this order
	}
	out := make(chan filePacked, 100)
	errC := make(chan errorHit, 10)
	done := make(chan struct{}, 1)
	var wg sync.WaitGroup
	wg.Add(1)
	go d.mergeSplits(out, errC, done, &wg)
	var names []string
	for fp := range out {
		names = append(names, fp.name+"="+fp.hash)
	}
	wg.Wait()
	sort.Strings(names)
	return names
}

// K7 / F12: the losing version of a path is filed under the directory of the split whose version
// arrived second, so the committed bundle depends on the order in which file lists are read.
func TestReplayK7(t *testing.T) {
	t0 := time.Unix(1600000000, 0)
	a := bundleEntriesRes{id: "split-A", bundleEntries: model.BundleEntries{BundleEntries: []model.BundleEntry{
		{Hash: "hash-old", NameWithPath: "p", Timestamp: t0}}}}
	b := bundleEntriesRes{id: "split-B", bundleEntries: model.BundleEntries{BundleEntries: []model.BundleEntry{
		{Hash: "hash-new", NameWithPath: "p", Timestamp: t0.Add(time.Hour)}}}}
	ab := rpMerge([]bundleEntriesRes{a, b})
	ba := rpMerge([]bundleEntriesRes{b, a})
	if strings.Join(ab, ",") != strings.Join(ba, ",") {
		t.Logf("REPLAY-CONFIRMED K7 arrival A,B -> %v ; arrival B,A -> %v (split-A's losing version is filed under split-B)", ab, ba)
	} else {
		t.Logf("REPLAY-NOT-REPRODUCED K7 both orders give %v", ab)
	}
}
