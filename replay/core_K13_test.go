package core

import (
	"bytes"
	"context"
	"fmt"
	"strings"
	"testing"

	"github.com/oneconcern/datamon/pkg/cafs"
	context2 "github.com/oneconcern/datamon/pkg/context"
	"github.com/oneconcern/datamon/pkg/model"
	"go.uber.org/zap"
)

// K13: bundleKeys skips the leaves of a root key that is already in the local KV ("we necessarily have
// all its leaves"). After an interrupted index build, the KV is reloaded from the uploaded chunks only,
// and chunks are cut from the keys in key order, so a chunk can hold a root without its leaves. The
// resumed build then never indexes those leaves, and delete-unused removes blobs of a committed bundle.
func TestReplayK13(t *testing.T) {
	ctx := context.Background()
	for seed := 0; seed < 64; seed++ {
		meta, blob := newRPStore("meta"), newRPStore("blob")
		stores := context2.NewStores(newRPStore("wal"), newRPStore("rl"), blob, meta, newRPStore("vmeta"))
		put := func(k, v string) { _ = meta.Put(ctx, k, strings.NewReader(v), true) }
		fs, err := cafs.New(cafs.LeafSize(1024), cafs.Backend(blob), cafs.Logger(zap.NewNop()))
		if err != nil {
			t.Fatal(err)
		}
		content := bytes.Repeat([]byte(fmt.Sprintf("content-%d.", seed)), 300) // 3 leaves of 1 KiB
		res, err := fs.Put(ctx, bytes.NewReader(content))
		if err != nil {
			t.Fatal(err)
		}
		root := res.Key.String()
		keys, _, _ := blob.KeysPrefix(ctx, "", "", "", 100)
		if len(keys) < 3 || keys[0] != root {
			continue // want an object whose root key sorts first, so that chunk 1 (size 1) holds the root only
		}
		id := "1aaaaaaaaaaaaaaaaaaaaaaaaaa"
		put(model.GetArchivePathToRepoDescriptor("r"), "name: r\n")
		put(model.GetArchivePathToBundle("r", id), fmt.Sprintf("id: %s\nleafSize: 1024\ncount: 1\n", id))
		put(model.GetArchivePathToBundleFileList("r", id, 0), fmt.Sprintf("BundleEntries:\n- hash: %s\n  name: f\n  size: %d\n", root, len(content)))

		// 1st run: interrupted while writing the second index chunk (the store keeps failing)
		meta.FailPut[model.ReverseIndexFile(2)] = 1 << 30
		opts := []PurgeOption{WithPurgeLogger(zap.NewNop()), WithPurgeIndexChunkSize(1)}
		_, err1 := PurgeBuildReverseIndex(stores, append(opts, WithPurgeLocalStore(t.TempDir()))...)
		chunk1, _ := meta.Has(ctx, model.ReverseIndexFile(1))
		// 2nd run: resumed, no fault
		meta.FailPut = map[string]int{}
		_, err2 := PurgeBuildReverseIndex(stores, append(opts, WithPurgeLocalStore(t.TempDir()), WithPurgeResumeIndex(true))...)
		_, err3 := PurgeDeleteUnused(stores, append(opts, WithPurgeLocalStore(t.TempDir()))...)
		after, _, _ := blob.KeysPrefix(ctx, "", "", "", 100)
		if err1 != nil && chunk1 && err2 == nil && err3 == nil && len(after) < len(keys) {
			t.Logf("REPLAY-CONFIRMED K13 build interrupted after chunk 1 (err=%v), resumed build and delete-unused report success; blobs of the committed bundle before=%d after=%d (root kept, leaves deleted)", err1, len(keys), len(after))
			return
		}
		t.Logf("REPLAY-NOT-REPRODUCED K13 seed=%d err1=%v chunk1=%v err2=%v err3=%v before=%d after=%d", seed, err1, chunk1, err2, err3, len(keys), len(after))
		return
	}
	t.Logf("REPLAY-NOT-REPRODUCED K13 no object with root sorting first")
}
