package cafs

import (
	"bytes"
	"context"
	"io/ioutil"
	"testing"

	"github.com/oneconcern/datamon/pkg/storage/localfs"
	"github.com/spf13/afero"
)

// F4: the root blob of an object (its leaf keys followed by a checksum key) is accepted when it is
// internally consistent, but the checksum is never compared with the key the object was asked by:
// a root blob replaced by the root blob of ANOTHER object passes, and reading object A silently
// returns the bytes of object B.
func TestReplayF4(t *testing.T) {
	ctx := context.Background()
	blobs := localfs.New(afero.NewMemMapFs())
	fs, err := New(LeafSize(64), Backend(blobs))
	if err != nil {
		t.Fatal(err)
	}
	a := bytes.Repeat([]byte("A"), 150)
	b := bytes.Repeat([]byte("B"), 150)
	ra, err := fs.Put(ctx, bytes.NewReader(a))
	if err != nil {
		t.Fatal(err)
	}
	rb, err := fs.Put(ctx, bytes.NewReader(b))
	if err != nil {
		t.Fatal(err)
	}
	// damage: object A's root blob is replaced by object B's root blob
	rd, err := blobs.Get(ctx, rb.Key.String())
	if err != nil {
		t.Fatal(err)
	}
	rootB, _ := ioutil.ReadAll(rd)
	if err = blobs.Delete(ctx, ra.Key.String()); err != nil {
		t.Fatal(err)
	}
	if err = blobs.Put(ctx, ra.Key.String(), bytes.NewReader(rootB), true); err != nil {
		t.Fatal(err)
	}
	// a fresh client (no cached key lists), as any later download is
	fs2, err := New(LeafSize(64), Backend(blobs))
	if err != nil {
		t.Fatal(err)
	}
	r, gerr := fs2.Get(ctx, ra.Key)
	var got []byte
	var rerr error
	if gerr == nil {
		got, rerr = ioutil.ReadAll(r)
	}
	if gerr == nil && rerr == nil && !bytes.Equal(got, a) {
		t.Logf("REPLAY-CONFIRMED F4 Get(A)+ReadAll returned %d bytes %q... without error after A's root blob was swapped with B's", len(got), got[:4])
	} else {
		t.Logf("REPLAY-NOT-REPRODUCED F4 get=%v read=%v equal=%v", gerr, rerr, bytes.Equal(got, a))
	}
}
