package core

import (
	"sort"
	"strings"
	"sync"
	"testing"
	"time"

	context2 "github.com/oneconcern/datamon/pkg/context"
	"github.com/oneconcern/datamon/pkg/model"
)

type rpNoPather14 struct{}

func (rpNoPather14) Next() (string, indexIterator) { return "", nil }

// rpMerge14 drives the real (*Diamond).mergeSplits with the given arrival order of split file lists.
func rpMerge14(order []bundleEntriesRes) []string {
	stores := context2.NewStores(newRPStore("wal"), newRPStore("rl"), newRPStore("blob"), newRPStore("meta"), newRPStore("vmeta"))
	d := NewDiamond("r", stores, DiamondDescriptor(model.NewDiamondDescriptor(model.DiamondID("d"))))
	d.splitIndexer = newFileIndex(stores, fileIndexPather(rpNoPather14{}))
	for _, r := range order {
		d.splitIndexer.output <- r
	}
	out := make(chan filePacked, 100)
	errC := make(chan errorHit, 10)
	done := make(chan struct{}, 1)
	var wg sync.WaitGroup
	wg.Add(1)
	go d.mergeSplits(out, errC, done, &wg)
	var names []string
	for fp := range out {
		names = append(names, fp.name+"="+fp.hash)
	}
	wg.Wait()
	sort.Strings(names)
	return names
}

// F14: when two splits upload IDENTICAL content for a path, the merge keeps the upload time of whichever
// arrived first. A third split with different content is then arbitrated against that time: with uploads
// A (t, content X), C (t+1h, content Y), B (t+2h, content X again) the latest upload is B's, so the main tree
// must hold X -- but when A's list is read before B's, X keeps A's time and Y wins.
func TestReplayF14(t *testing.T) {
	t0 := time.Unix(1600000000, 0)
	mk := func(id, hash string, at time.Time) bundleEntriesRes {
		return bundleEntriesRes{id: id, bundleEntries: model.BundleEntries{BundleEntries: []model.BundleEntry{{Hash: hash, NameWithPath: "p", Timestamp: at}}}}
	}
	a, c, b := mk("split-A", "X", t0), mk("split-C", "Y", t0.Add(time.Hour)), mk("split-B", "X", t0.Add(2*time.Hour))
	abc := rpMerge14([]bundleEntriesRes{a, b, c})
	bac := rpMerge14([]bundleEntriesRes{b, a, c})
	main := func(l []string) string {
		for _, e := range l {
			if strings.HasPrefix(e, "p=") {
				return e
			}
		}
		return ""
	}
	if main(abc) != main(bac) || main(abc) != "p=X" {
		t.Logf("REPLAY-CONFIRMED F14 arrival A,B,C -> %v ; arrival B,A,C -> %v (latest upload is split-B's X)", abc, bac)
	} else {
		t.Logf("REPLAY-NOT-REPRODUCED F14 both orders give %v", abc)
	}
}
