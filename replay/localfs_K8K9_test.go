package localfs

import (
	"context"
	"strings"
	"testing"

	"github.com/spf13/afero"
)

// K8: KeysPrefix cleans the prefix (drops a trailing "/"), so sibling prefixes match and a delimiter
// collapses everything. K9: results come in directory-walk order, not lexicographic key order.
func TestReplayK8K9(t *testing.T) {
	ctx := context.Background()
	s := New(afero.NewBasePathFs(afero.NewOsFs(), t.TempDir()))
	for _, k := range []string{"bundles/repo/b1/bundle.yaml", "bundles/repo2/b2/bundle.yaml", "x/f", "x-1/f"} {
		if err := s.Put(ctx, k, strings.NewReader("v"), true); err != nil {
			t.Fatal(err)
		}
	}
	ks, _, err := s.KeysPrefix(ctx, "", "bundles/repo/", "", 100)
	foreign := false
	for _, k := range ks {
		if strings.HasPrefix(k, "bundles/repo2/") {
			foreign = true
		}
	}
	if err == nil && foreign {
		t.Logf("REPLAY-CONFIRMED K8 KeysPrefix(\"bundles/repo/\") returned %v (includes bundles/repo2/...)", ks)
	} else {
		t.Logf("REPLAY-NOT-REPRODUCED K8 %v %v", ks, err)
	}
	ks, _, err = s.KeysPrefix(ctx, "", "x", "", 100)
	sorted := true
	for i := 1; i < len(ks); i++ {
		if ks[i-1] > ks[i] {
			sorted = false
		}
	}
	if err == nil && !sorted {
		t.Logf("REPLAY-CONFIRMED K9 KeysPrefix(\"x\") returned %v, not in lexicographic order", ks)
	} else {
		t.Logf("REPLAY-NOT-REPRODUCED K9 %v %v", ks, err)
	}
}
