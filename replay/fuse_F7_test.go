package fuse

import (
	"context"
	"sync"
	"testing"

	iradix "github.com/hashicorp/go-immutable-radix"
	"github.com/jacobsa/fuse/fuseops"
	"github.com/jacobsa/fuse/fuseutil"
	"github.com/oneconcern/datamon/pkg/dlogger"
)

// F7: MkDir under a parent that does not exist unlocks fs.lock twice (explicitly and by defer).
// On the defective code this dies with "fatal error: sync: unlock of unlocked mutex".
func TestReplayF7(t *testing.T) {
	fs := fsMutable{
		fsCommon:   fsCommon{lookupTree: iradix.New(), l: dlogger.MustGetLogger("error")},
		iNodeStore: iradix.New(),
		readDirMap: make(map[fuseops.InodeID]map[fuseops.InodeID]*fuseutil.Dirent),
		lock:       sync.Mutex{},
	}
	err := fs.MkDir(context.Background(), &fuseops.MkDirOp{Parent: 4242, Name: "d"})
	t.Logf("REPLAY-NOT-REPRODUCED F7 MkDir under a missing parent returned %v without crashing", err)
}
