package cafs

import (
	"bytes"
	"context"
	"io"
	"os"
	"path/filepath"
	"testing"

	"github.com/oneconcern/datamon/pkg/storage/localfs"
	"github.com/spf13/afero"
)

// K1: chunkReader.WriteTo, when the destination is an io.WriterAt (every *os.File / afero file, i.e. the
// path a bundle download to a local directory takes), copies each leaf straight from the blob store to
// the destination and never verifies its hash: an altered leaf is written out and success is reported.
func TestReplayK1(t *testing.T) {
	ctx := context.Background()
	blobs := localfs.New(afero.NewMemMapFs())
	fs, err := New(LeafSize(64), Backend(blobs)) // hash verification on read is the default
	if err != nil {
		t.Fatal(err)
	}
	content := bytes.Repeat([]byte("0123456789abcdef"), 10) // 160 bytes: two full leaves and a partial one
	res, err := fs.Put(ctx, bytes.NewReader(content))
	if err != nil {
		t.Fatal(err)
	}
	leaves, err := LeavesForHash(blobs, res.Key, 64, "")
	if err != nil || len(leaves) != 3 {
		t.Fatalf("leaves: %v %v", leaves, err)
	}
	// damage the second leaf in the blob store (same length, different bytes)
	if err = blobs.Delete(ctx, leaves[1].String()); err != nil {
		t.Fatal(err)
	}
	if err = blobs.Put(ctx, leaves[1].String(), bytes.NewReader(bytes.Repeat([]byte("X"), 64)), true); err != nil {
		t.Fatal(err)
	}
	// sequential read style: must fail (and does)
	rd, err := fs.Get(ctx, res.Key)
	if err != nil {
		t.Fatal(err)
	}
	_, serr := io.Copy(onlyWriter{&bytes.Buffer{}}, rd)
	t.Logf("sequential read of the damaged object: err=%v", serr)
	// streaming to a file (io.WriterAt): the download path
	rd, err = fs.Get(ctx, res.Key)
	if err != nil {
		t.Fatal(err)
	}
	dst := filepath.Join(t.TempDir(), "out")
	f, err := os.Create(dst)
	if err != nil {
		t.Fatal(err)
	}
	n, werr := rd.(io.WriterTo).WriteTo(f)
	f.Close()
	got, _ := os.ReadFile(dst)
	if werr == nil && !bytes.Equal(got, content) {
		t.Logf("REPLAY-CONFIRMED K1 WriteTo(*os.File) returned n=%d err=nil and wrote bytes that differ from the stored content (leaf 2 = %q...)", n, got[64:72])
	} else {
		t.Logf("REPLAY-NOT-REPRODUCED K1 n=%d err=%v equal=%v serr=%v", n, werr, bytes.Equal(got, content), serr)
	}
}

type onlyWriter struct{ w io.Writer }

func (o onlyWriter) Write(p []byte) (int, error) { return o.w.Write(p) }
