package model

import "testing"

// K11: the generated-file regexp also matches "..conflicts/x", "..checkpoints" (a dot, no slash).
func TestReplayK11(t *testing.T) {
	for _, w := range []string{"..checkpoints/", "..conflicts/x", "..checkpoints"} {
		if IsGeneratedFile(w) {
			t.Logf("REPLAY-CONFIRMED K11 IsGeneratedFile(%q) == true although it is not a reserved location", w)
		} else {
			t.Logf("REPLAY-NOT-REPRODUCED K11 IsGeneratedFile(%q) == false", w)
		}
	}
}
