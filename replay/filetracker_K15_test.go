package filetracker

import (
	"fmt"
	"testing"
)

type rpW struct{ off, n int64 }

// rpCheck replays a write history on the real tracker and compares getRangeToRead, offset by offset,
// with a bitmap. It returns a description of the first disagreement, or "".
func rpCheck(ws []rpW, span int64) string {
	tf := newTFile(nil, nil, "f")
	bits := make([]bool, span+1)
	for _, w := range ws {
		tf.trackWrite(w.off, w.n)
		for i := w.off; i < w.off+w.n; i++ {
			bits[i] = true
		}
	}
	for off := int64(0); off < span; off++ {
		c, st := tf.getRangeToRead(off, span-off)
		if st != bits[off] {
			return fmt.Sprintf("offset %d reported mutable=%v, bitmap says %v", off, st, bits[off])
		}
		if c <= 0 || c > span-off {
			return fmt.Sprintf("offset %d: contiguous length %d out of (0,%d]", off, c, span-off)
		}
		for i := off; i < off+c; i++ {
			if bits[i] != bits[off] {
				return fmt.Sprintf("range [%d,%d) from offset %d crosses a modified/unmodified boundary at %d", off, off+c, off, i)
			}
		}
	}
	return ""
}

// K15: trackWrite loses or misplaces markers for writes that start before or exactly at an existing range.
func TestReplayK15(t *testing.T) {
	for _, h := range [][]rpW{
		{{10, 10}, {0, 5}},  // write before an existing range: lost
		{{0, 10}, {10, 10}}, // append right after an existing range: offsets 0..9 read as base
	} {
		if msg := rpCheck(h, 32); msg != "" {
			t.Logf("REPLAY-CONFIRMED K15 writes %v: %s", h, msg)
		} else {
			t.Logf("REPLAY-NOT-REPRODUCED K15 writes %v agree with the bitmap", h)
		}
	}
}
