package core

import (
	"context"
	"fmt"
	"strings"
	"testing"

	context2 "github.com/oneconcern/datamon/pkg/context"
	"github.com/oneconcern/datamon/pkg/model"
)

// K16: RenameRepo's copy loop tests the wrong error variable after reading a file list
// (`rdr, ee := Get(...); if e != nil { return ee }`): a failed read is ignored and the nil reader is used.
func TestReplayK16(t *testing.T) {
	meta := newRPStore("meta")
	stores := context2.NewStores(newRPStore("wal"), newRPStore("rl"), newRPStore("blob"), meta, newRPStore("vmeta"))
	ctx := context.Background()
	put := func(k, v string) { _ = meta.Put(ctx, k, strings.NewReader(v), true) }
	put(model.GetArchivePathToRepoDescriptor("r"), "name: r\ndescription: d\ncontributor:\n  name: n\n  email: e@x.io\n")
	id := "1aaaaaaaaaaaaaaaaaaaaaaaaaa"
	put(model.GetArchivePathToBundle("r", id), "id: "+id+"\ncount: 1\ndeduplication: blake\n")
	put(model.GetArchivePathToBundleFileList("r", id, 0), "BundleEntries: []\n")
	meta.FailGet[model.GetArchivePathToBundleFileList("r", id, 0)] = 1 // one transient read failure
	var err error
	var pv interface{}
	func() {
		defer func() { pv = recover() }()
		err = RenameRepo("r", "r2", stores)
	}()
	copied, _ := meta.Has(ctx, model.GetArchivePathToBundleFileList("r2", id, 0))
	oldGone, _ := meta.Has(ctx, model.GetArchivePathToRepoDescriptor("r"))
	if pv != nil || (err == nil && !copied) {
		t.Logf("REPLAY-CONFIRMED K16 RenameRepo with one failed file-list read: panic=%v err=%v file list copied=%v old repo still there=%v", pv, err, copied, oldGone)
	} else {
		t.Logf("REPLAY-NOT-REPRODUCED K16 err=%v copied=%v", err, copied)
	}
	_ = fmt.Sprint()
}
