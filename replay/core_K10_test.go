package core

import (
	"context"
	"strings"
	"testing"

	context2 "github.com/oneconcern/datamon/pkg/context"
	"github.com/oneconcern/datamon/pkg/model"
)

// K10: the core API accepts a label name containing "/" (ValidateLabel is never called); the label is
// written, and afterwards the repository's labels cannot be listed any more.
func TestReplayK10(t *testing.T) {
	meta, vmeta := newRPStore("meta"), newRPStore("vmeta")
	stores := context2.NewStores(newRPStore("wal"), newRPStore("rl"), newRPStore("blob"), meta, vmeta)
	ctx := context.Background()
	_ = meta.Put(ctx, model.GetArchivePathToRepoDescriptor("r"), strings.NewReader("name: r\n"), true)
	b := NewBundle(Repo("r"), ContextStores(stores), BundleID("1aaaaaaaaaaaaaaaaaaaaaaaaaa"))
	l := NewLabel(LabelDescriptor(model.NewLabelDescriptor(model.LabelName("a/b"))))
	err := l.UploadDescriptor(ctx, b)
	_, lerr := ListLabels("r", stores)
	if err == nil && lerr != nil {
		t.Logf("REPLAY-CONFIRMED K10 label \"a/b\" was accepted; ListLabels now fails: %v", lerr)
	} else {
		t.Logf("REPLAY-NOT-REPRODUCED K10 upload err=%v list err=%v", err, lerr)
	}
}
