; lemma: what occurs in b occurs in a ++ b
(set-option :strings-exp true)
(set-logic ALL)
(declare-const a String)
(declare-const b String)
(declare-const x String)
(assert (str.contains b x))
(assert (not (str.contains (str.++ a b) x)))
(check-sat)
