; lemma L (native strings): for a slash-free a, splitting a ++ "/" ++ r at its first "/" gives (a, r),
; and a slash-free string has no "/" to split at. hd/tl are the first piece and the remainder, i.e. what
; strings.SplitN(s, "/", n) (n > 1) yields first and then goes on splitting.      (negated: must be unsat)
(set-option :strings-exp true)
(set-logic ALL)
(declare-const a String)
(declare-const r String)
(define-fun hd ((s String)) String (ite (str.contains s "/") (str.substr s 0 (str.indexof s "/" 0)) s))
(define-fun tl ((s String)) String (str.substr s (+ (str.indexof s "/" 0) 1) (str.len s)))
(assert (not (str.contains a "/")))
(assert (not (and (= (hd (str.++ a "/" r)) a) (= (tl (str.++ a "/" r)) r) (str.contains (str.++ a "/" r) "/") (= (hd a) a))))
(check-sat)
