#!/bin/sh
# usage: replay.sh <replay file>: prints the recorded obligation and re-runs it on the current tree
f="$1"; [ -f "$f" ] || { echo "no such replay file"; exit 2; }
cat "$f"; cmd=$(python3 -c "import json,sys;print(json.load(open(sys.argv[1]))['how_to_rerun'])" "$f")
export GOFLAGS=-mod=mod GOPROXY=off GOSUMDB=off GOTOOLCHAIN=local
echo "+ $cmd"; sh -c "$cmd"
